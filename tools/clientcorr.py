"""Trace validation of the real gateway clients against the client LTS (lean/N2k/Model/Client.lean) and the framing models
(Model/Reader.lean, Model/Serial.lean): scripted sessions under virtual time, faults/close injected at every step.
Shared by C12, C13, C14, C19."""
import asyncio
import random

import common
import harness
import clientsim


def ebyte_packet(i, payload=None):
    data = payload if payload is not None else bytes([i & 0xFF, 2, 3, 4, 5, 6, 7, 8])
    return bytes([0x80 | len(data)]) + (0x19F21401 + (i % 200)).to_bytes(4, "big") + data + bytes(8 - len(data))


def yd_line(i):
    return ("12:00:%02d.000 R 19F21401 %02X 02 03 04 05 06 07 08\r\n" % (i % 60, i & 0xFF)).encode()


def acti_line(i):
    if i % 7 == 3:
        # a fast-packet message arrives as ONE line with the whole payload: PGN 126996 product information, 134 bytes = 292 characters
        p = (2100).to_bytes(2, "little") + (1000 + i).to_bytes(2, "little") + b"".join(t.ljust(32, b"\xff") for t in (b"GPS 24xd", b"5.60", b"1", b"39998%05d" % i)) + bytes([2, 1])
        return ("A%06d.100 23FF6 1F014 %s\r\n" % (i, p.hex().upper())).encode()
    return ("A%06d.000 01FF6 1F214 %02X02030405060708\r\n" % (i, i & 0xFF)).encode()


def usb_packet(i):
    from nmea2000.utils import calculate_canbus_checksum
    body = bytes([0xaa, 0x55, 1, 2, 1]) + (0x19F21401).to_bytes(4, "little") + bytes([8, i & 0x7F, 2, 3, 4, 5, 6, 7, 8, 0])
    return body + bytes([calculate_canbus_checksum(body)])


def raising_packet(kind):
    """well framed, but the per-PGN decoder raises (out-of-range payload)"""
    bad = bytes([0xFE] * 8)
    if kind == "ebyte":
        return ebyte_packet(0, bad)
    if kind == "waveshare":
        from nmea2000.utils import calculate_canbus_checksum
        body = bytes([0xaa, 0x55, 1, 2, 1]) + (0x19F21401).to_bytes(4, "little") + bytes([8]) + bad + b"\x00"
        return body + bytes([calculate_canbus_checksum(body)])
    if kind == "yd":
        return b"12:00:00.000 R 19F21401 FE FE FE FE FE FE FE FE\r\n"
    return b"A000001.000 01FF6 1F214 FEFEFEFEFEFEFEFE\r\n"


PACKET = {"ebyte": ebyte_packet, "yd": yd_line, "actisense": acti_line, "waveshare": usb_packet}


def fake_encoder(sim, kind):
    """encoder whose packets carry (send id, index) so that the wire log can be attributed"""
    class Enc:
        def _mk(self, m):
            n = getattr(m, "_npk", 3)
            if getattr(m, "_bad", False):
                raise ValueError("unencodable")
            out = []
            for i in range(n):
                b = bytes([0xEE, m._sid, i, 0x55])
                sim.packet_ids[b] = (m._sid, i)
                out.append(b)
            return out
        encode_ebyte = encode_usb = encode_yacht_devices = _mk
    return Enc()


_MULTI = {}


def multi_definition_messages():
    """messages of PGNs that have several encodable definitions (the encoder has to choose by PGN and id), two or three definitions each"""
    if common.REPO not in _MULTI:
        import enccorr
        msgs, _ = enccorr.decoded_messages({"seed": 0, "tier": "quick", "repo": common.REPO}, 1, 77)
        by = {}
        for sfx, p, m in msgs:
            by.setdefault(p["PGN"], []).append(m)
        _MULTI[common.REPO] = [ms for pgn, ms in sorted(by.items()) if len(ms) >= 2]
    return _MULTI[common.REPO]


def make_msg(sid, npk=3, bad=False):
    from nmea2000.message import NMEA2000Message
    m = NMEA2000Message(PGN=127508)
    m._sid, m._npk, m._bad = sid, npk, bad
    return m


async def base_session(sim, shape, inject):
    """the session shapes of the quantifier; `inject(sim)` is started as a concurrent task that performs the fault/close"""
    kind = sim.kind
    pk = PACKET[kind]
    await sim.start()
    c = sim.c
    c.encoder = fake_encoder(sim, kind)
    inj = asyncio.ensure_future(inject(sim))

    async def api(name, coro):
        """a client API call made by the application: an exception escaping from it is an observation (the client must not raise)"""
        try:
            return await coro
        except asyncio.CancelledError:
            if asyncio.current_task().cancelling() > 0:
                raise
            sim.emit(f"apiRaised {name} CancelledError")      # nobody cancelled the caller: the client let a CancelledError of a callback escape
        except Exception as e:
            sim.emit(f"apiRaised {name} {type(e).__name__}")
    try:
        if getattr(sim, "first_connect_timeout", None):
            # the application bounds its connect() with a timeout that expires while the CONNECTED status callback is still running
            try:
                await asyncio.wait_for(c.connect(), sim.first_connect_timeout)
            except (asyncio.TimeoutError, asyncio.CancelledError):
                pass
            await sim.pause(0.2)
        await api("connect", c.connect())
        await sim.settle(0.001)
        if shape == "flap":
            # a gateway that accepts every connection and drops it 10 ms later, while the application keeps sending every 50 ms
            async def dropper():
                seen = 0
                while True:
                    if len(sim.conns) > seen:
                        seen = len(sim.conns)
                        await sim.pause(0.01)
                        sim.eof(seen, gone=True)
                    await sim.pause(0.005)
            dr = asyncio.ensure_future(dropper())
            for j in range(60):
                await api("send", c.send(make_msg(100 + j, 1)))
                await sim.pause(0.05)
            dr.cancel()
            await asyncio.gather(dr, return_exceptions=True)
        elif sim.conns and c.state.name == "CONNECTED":
            if shape == "burst":
                sim.feed(pk(5) + pk(6) + pk(7) + pk(8) + pk(9))      # a backlog: several packets in one read
                await sim.settle(0.001)
            sim.feed(pk(1) + pk(2)[:5])
            await sim.settle(0.001)
            if sim.conns:
                sim.feed(pk(2)[5:])
            await sim.settle(0.001)
            if shape == "realbad" and kind != "actisense":
                from nmea2000.encoder import NMEA2000Encoder
                from nmea2000.message import NMEA2000Message, NMEA2000Field
                c.encoder = NMEA2000Encoder()
                bad = [NMEA2000Message(PGN=127508, id="batteryStatus", fields=[], source=1, destination=255, priority=6),                       # missing fields
                       NMEA2000Message(PGN=59392, id="isoAcknowledgement", fields=[NMEA2000Field("control", value="No Such Name", raw_value=None), NMEA2000Field("groupFunction", value=1, raw_value=1),
                                                                                    NMEA2000Field("reserved_16", value=0, raw_value=0), NMEA2000Field("pgn", value=1, raw_value=1)], source=1, destination=255, priority=6),   # lookup name not in the table
                       NMEA2000Message(PGN=127508, id="batteryStatus", fields=[NMEA2000Field("instance", value="one", raw_value=1)], source=1, destination=255, priority=6),   # wrongly typed value
                       NMEA2000Message(PGN=61001, id="nothing", fields=[], source=1, destination=255, priority=6),                                    # unknown PGN
                       NMEA2000Message(PGN=127508, id="batteryStatus", fields=[NMEA2000Field("instance", value=1000, raw_value=1000)], source=1, destination=255, priority=6),   # out of range
                       NMEA2000Message(PGN=59904, id="isoRequest", fields=[NMEA2000Field("pgn", value=60928, raw_value=60928)], source=1, destination=255, priority=None),    # header attribute missing (JSON null)
                       NMEA2000Message(PGN=59904, id="isoRequest", fields=[NMEA2000Field("pgn", value=60928, raw_value=60928)], source=1, destination=None, priority=6)]
                for j, m in enumerate(bad):
                    m._sid = 21 + j
                    await api("send", c.send(m))
                c.encoder = fake_encoder(sim, kind)
            if shape == "realmulti" and kind != "actisense":
                # the real encoder, several definitions of one PGN one after the other through the client's one encoder object: every
                # send must write what a fresh encoder (same sequence counter) produces for that message, or nothing if that refuses it
                import copy
                from nmea2000.encoder import NMEA2000Encoder
                groups = multi_definition_messages()
                rr = random.Random(sim.variant)
                c.encoder = NMEA2000Encoder()
                fn_name = {"ebyte": "encode_ebyte", "yd": "encode_yacht_devices", "waveshare": "encode_usb"}[kind]
                seq = []
                for g in rr.sample(groups, min(3, len(groups))):
                    seq += rr.sample(g, min(len(g), 3))
                for j, m0 in enumerate(seq):
                    mm = copy.deepcopy(m0)
                    mm.priority, mm.source, mm.destination = 3, 10 + j, 255
                    mm._sid = 140 + j
                    fresh = NMEA2000Encoder()
                    fresh.sequence_counter = c.encoder.sequence_counter
                    try:
                        exp = [bytes(x) for x in getattr(fresh, fn_name)(mm)]
                    except Exception:
                        exp = None
                    sim.expected_packets[mm._sid] = exp
                    for i, b in enumerate(exp or []):
                        sim.packet_ids[b] = (mm._sid, i)
                    await api("send", c.send(mm))
                c.encoder = fake_encoder(sim, kind)
            if shape in ("send", "send2"):
                sends = [api("send", c.send(make_msg(1, 3)))]
                if shape == "send2":
                    sends += [api("send", c.send(make_msg(2, 2))), api("send", c.send(make_msg(3, 1)))]
                try:
                    await asyncio.wait_for(asyncio.gather(*sends), 8.0)
                except asyncio.TimeoutError:
                    sim.emit("--sendStuck 1")
                if kind != "actisense":
                    await api("send", c.send(make_msg(9, 2, bad=True)))
            await sim.settle(0.02)
            if sim.conns:
                sim.feed(raising_packet(kind) + pk(3))
            await sim.settle(0.02)
        await sim.settle(12.0)      # long enough for the retry machinery to come back whatever happened
        if getattr(sim, "long", False):
            await sim.settle(35.0)  # … also after the 30 s pause of a busy gateway
        if sim.conns and c.state.name == "CONNECTED":
            sim.feed(pk(4))
            await sim.settle(0.02)
            if kind != "actisense" and shape != "flap":
                # a message sent on the link that is current now must go out whatever happened to earlier links and senders
                try:
                    await asyncio.wait_for(api("send", c.send(make_msg(15, 2))), 3.0)
                except asyncio.TimeoutError:
                    sim.emit("--sendStuck 15")
                await sim.settle(0.02)
    finally:
        await asyncio.gather(inj, return_exceptions=True)
        sim.state_at_end = c.state.name       # before the harness's own final close()
        rt = getattr(c, "_receive_task", None)
        sim.receiver_at_end = rt is not None and not rt.done()
        sim.time_at_end = asyncio.get_event_loop().time()
        if not sim.events or sim.events[-1] != "closeReturn":
            if c.state.name != "CLOSED" or "closeReturn" not in sim.events:
                try:
                    await c.close()
                except BaseException:
                    pass
        await sim.settle(0.05)
        # snapshot before the harness tears the loop down: which of the client's background tasks are still alive
        sim.tasks_alive = [name for name in ("_receive_task", "_process_queue_task", "_reconnect_task", "_seed_task")
                           if getattr(c, name, None) is not None and not getattr(c, name).done()]
        # … and any other task the client started that is still pending (whatever attribute it is kept in, if any)
        for t in asyncio.all_tasks():
            q = getattr(t.get_coro(), "__qualname__", "")
            nm = q.split(".")[-1]
            own = ("AsyncIOClient." in q or "Nmea2000Gateway." in q) and nm not in ("connect", "send", "close")
            wrapped = "Sim.start.<locals>." in q and nm in ("receive_loop", "reconnect")
            if not t.done() and t is not asyncio.current_task() and (own or wrapped):
                if not any(nm.strip("_").replace("_loop", "") in a for a in sim.tasks_alive):
                    sim.tasks_alive.append(nm)
        sim.stop()
    return sim


def injector(action, ticks=None, at=None):
    async def inj(sim):
        if at is not None:
            await sim.pause(at)
        if ticks:
            await sim.ticks(ticks)
        c = sim.c
        if action == "none":
            return
        if action == "close":
            try:
                await c.close()
            except Exception as e:
                sim.emit(f"apiRaised close {type(e).__name__}")
        elif action == "eof" and sim.conns:
            sim.eof()
        elif action == "readerr" and sim.conns:
            sim.read_error()
        elif action == "writefail":
            sim.fail_write_at = sim.write_count
        elif action == "drainfail":
            sim.fail_drain_at = sim.drain_count
        elif action == "garbage-eof" and sim.conns:
            sim.feed(bytes([0x55, 0xaa, 0x0a, 0x41, 0x20, 0x0d, 0x0a, 0xff] * 3))
            await sim.ticks(2)
            sim.eof()
        elif action == "close-twice":
            # two close() calls that overlap (the first one is still in its status callback when the second is made)
            async def one():
                try:
                    await c.close()
                except Exception as e:
                    sim.emit(f"apiRaised close {type(e).__name__}")
            await asyncio.gather(one(), one())
        elif action == "close-interrupted":
            # a close() that the application gives up on (wait_for) while the status callback is still running, then a second close()
            try:
                await asyncio.wait_for(c.close(), 0.01)
            except (asyncio.TimeoutError, asyncio.CancelledError):
                pass
            await sim.pause(0.2)
            try:
                await c.close()
            except Exception as e:
                sim.emit(f"apiRaised close {type(e).__name__}")
        elif action == "eof-connect-timeout" and sim.conns:
            # the link is lost; the application also calls connect(), bounded by a timeout that expires between two refused attempts
            sim.eof()
            await sim.ticks(3)
            try:
                await asyncio.wait_for(c.connect(), 0.7)
            except (asyncio.TimeoutError, asyncio.CancelledError):
                pass
        elif action == "busy" and sim.conns:
            sim.busy()
        elif action == "eof-close" and sim.conns:
            # the link is lost, and the application gives up while the client is still trying to get it back
            sim.eof()
            await sim.pause(sim.close_after)
            try:
                await c.close()
            except Exception as e:
                sim.emit(f"apiRaised close {type(e).__name__}")
        elif action == "connect":
            try:
                await c.connect()
            except Exception as e:
                sim.emit(f"apiRaised connect {type(e).__name__}")
        elif action == "gate" and sim.gate is not None:
            sim.gate.set()
    return inj


def scenarios(ctx):
    rnd = random.Random(ctx["seed"] + 81)
    out = []
    kinds = clientsim.Sim.KINDS
    for kind in kinds:
        for shape in ("plain", "send", "send2", "realbad"):
            for cs in (["ok"], ["refuse", "refuse", "ok"], ["refuse"] * 6 + ["ok"]):
                for action in ("none", "close", "eof", "readerr", "writefail", "drainfail", "garbage-eof", "connect"):
                    points = [("ticks", t) for t in range(0, 14)] + [("at", a) for a in (0.0005, 0.003, 0.015, 0.4, 0.9, 2.0, 5.0)]
                    for kindp, v in points:
                        for cbm, stm in (("ok", "ok"), ("raise", "ok"), ("slow", "slow"), ("ok", "raise"), (["ok", "close"], "ok"), ("close", "raise"), ("ok", "close-on-disconnect"), ("ok", "slow-connected"), ("ok", "connect-on-disconnect"), (["ok", "cancelled", "ok"], "ok")):
                            out.append(dict(kind=kind, shape=shape, connect=cs, action=action, point=[kindp, v], cb=cbm, status=stm,
                                            drain=rnd.choice([None, [1], [0, 2], [3]])))
    rnd.shuffle(out)
    main, out = out, []
    # families outside the product above: they are few and run first, on every check (the product is sampled)
    for kind in kinds:
        for st in ("cancelled", "badstr"):
            for cs in (["ok"], ["refuse", "ok"]):
                for action in ("none", "close", "eof", "readerr", "writefail"):
                    for kindp, v in [("ticks", t) for t in (0, 3, 6, 9)] + [("at", a) for a in (0.003, 0.4, 2.0)]:
                        out.append(dict(kind=kind, shape=rnd.choice(["plain", "send"]), connect=cs, action=action, point=[kindp, v], cb="ok", status=st, drain=None))
        for cbm in ("badstr", ["ok", "badstr", "ok"]):
            for action in ("none", "eof", "close"):
                for kindp, v in [("ticks", t) for t in (0, 4, 8)] + [("at", 0.4)]:
                    out.append(dict(kind=kind, shape="plain", connect=["ok"], action=action, point=[kindp, v], cb=cbm, status="ok", drain=None))
        if kind != "actisense":
            # a sender stuck in drain() (the peer stopped reading) when the link is lost
            for action in ("eof", "readerr", "garbage-eof"):
                for kindp, v in [("ticks", t) for t in (6, 8, 10, 12)] + [("at", a) for a in (0.003, 0.015)]:
                    for shape in ("send", "send2"):
                        out.append(dict(kind=kind, shape=shape, connect=["ok"], action=action, point=[kindp, v], cb="ok", status="ok", drain=["stuck"]))
            for stm in ("ok", "slow"):
                out.append(dict(kind=kind, shape="flap", connect=["ok"], action="none", point=["ticks", 0], cb="ok", status=stm, drain=None))
        if kind in ("ebyte", "yd", "waveshare"):
            # with the network map on, the client seeds it by itself: a background task that sleeps and sends for 6 s after every connect
            for action in ("close", "eof", "none", "readerr"):
                for kindp, v in [("ticks", 5), ("at", 0.4), ("at", 2.0), ("at", 5.0), ("at", 9.0)]:
                    out.append(dict(kind=kind, shape=rnd.choice(["plain", "send"]), connect=["ok"], action=action, point=[kindp, v], cb="ok", status="ok", drain=None, client={"build_network_map": True}))
        if kind != "actisense":
            for variant in range(12):
                out.append(dict(kind=kind, shape="realmulti", connect=["ok"], action=rnd.choice(["none", "none", "eof"]), point=["at", rnd.choice([0.4, 2.0, 9.0])], cb="ok", status="ok", drain=None, variant=variant))
        for action in ("eof", "readerr", "writefail"):
            for kindp, v in [("ticks", 6), ("at", 0.4), ("at", 2.0)]:
                out.append(dict(kind=kind, shape=rnd.choice(["plain", "send"]), connect=["ok"], action=action, point=[kindp, v], cb="ok", status="close-on-reconnected", drain=None))
        # connect failures that are OSErrors but not ConnectionErrors
        for cs in (["unreachable", "unreachable", "ok"], ["ok", "unreachable", "ok"]):
            for action in ("none", "eof", "close"):
                for kindp, v in [("ticks", 6), ("at", 0.4), ("at", 2.0)]:
                    out.append(dict(kind=kind, shape="plain", connect=cs, action=action, point=[kindp, v], cb="ok", status="ok", drain=None))
        # a backlog in the queue when the callback closes, raises or is slow
        for cbm in ("close", ["ok", "close"], ["ok", "ok", "close"], ["ok", "raise", "close"], "slow", ["slow", "close"], ["slow", "ok", "ok", "ok", "ok", "ok", "ok"]):
            for action in ("none", "eof"):
                for kindp, v in [("ticks", 6), ("at", 0.4)]:
                    out.append(dict(kind=kind, shape="burst", connect=["ok"], action=action, point=[kindp, v], cb=cbm, status="ok", drain=None))
        # connect() calls that their caller cancels (a timeout): during the CONNECTED status callback, and between two refused attempts while
        # the reconnect task is due
        for kindp, v in [("ticks", 6), ("at", 0.4), ("at", 2.0)]:
            for action in ("none", "eof"):
                out.append(dict(kind=kind, shape="plain", connect=["ok"], action=action, point=[kindp, v], cb="ok", status="slow-connected", drain=None, first_connect_timeout=0.02))
            out.append(dict(kind=kind, shape="plain", connect=["ok", "refuse", "refuse", "refuse", "ok"], action="eof-connect-timeout", point=[kindp, v], cb="ok", status="ok", drain=None))
        if kind in ("ebyte", "yd", "waveshare"):
            # a seeding send fails and the status callback closes the client: inside the seeding task
            for v in (1.9, 3.9):
                out.append(dict(kind=kind, shape="plain", connect=["ok"], action="writefail", point=["at", v], cb="ok", status="close-on-disconnect", drain=None, client={"build_network_map": True}))
        for action in ("close-twice", "close-interrupted"):
            for stm in ("slow", "ok"):
                for kindp, v in [("ticks", 6), ("at", 0.4), ("at", 2.0)]:
                    out.append(dict(kind=kind, shape=rnd.choice(["plain", "send"]), connect=["ok"], action=action, point=[kindp, v], cb="ok", status=stm, drain=None))
        if kind != "actisense":
            # the link resets under the message the application sends when it is told CONNECTED, twice in a row
            for action in ("none", "eof"):
                for kindp, v in [("ticks", 6), ("at", 0.4), ("at", 2.0)]:
                    out.append(dict(kind=kind, shape="plain", connect=["ok"], action=action, point=[kindp, v], cb="ok", status="send-on-connected", drain=None))
        if kind == "ebyte":
            # the gateway is busy ('Sorry,Limited'): 30 s pause, then the link is given up and re-established
            for kindp, v in [("ticks", 6), ("at", 0.003), ("at", 0.4), ("at", 2.0)]:
                for stm in ("ok", "slow", "raise"):
                    out.append(dict(kind=kind, shape="plain", connect=["ok"], action="busy", point=[kindp, v], cb="ok", status=stm, drain=None, long=True))
        # close() while the reconnect task waits, connects, or sleeps between two refused attempts
        for delay in (0.2, 0.5, 0.7, 1.2, 2.5):
            for kindp, v in [("ticks", 6), ("at", 0.4)]:
                for cs in (["ok", "refuse", "refuse", "refuse", "refuse", "ok"], ["ok", ["slow", 5], "ok"]):
                    out.append(dict(kind=kind, shape="plain", connect=cs, action="eof-close", point=[kindp, v], cb="ok", status="ok", drain=None, close_after=delay))
    rnd.shuffle(out)
    return out + main


_LOADED = [None]


def run_scenario(sc):
    if _LOADED[0] != common.REPO:
        harness.load_repo()
        _LOADED[0] = common.REPO
    kindp, v = sc["point"]

    sim = clientsim.Sim(sc["kind"], connect_script=[tuple(x) if isinstance(x, list) else x for x in sc["connect"]], cb_mode=sc["cb"], status_mode=sc["status"],
                        drain_script=sc.get("drain"), **(sc.get("client") or {}))
    sim.close_after = sc.get("close_after", 1.0)
    sim.long = sc.get("long", False)
    sim.first_connect_timeout = sc.get("first_connect_timeout")
    sim.variant = sc.get("variant", 0)

    async def go():
        inj = injector(sc["action"], ticks=v if kindp == "ticks" else None, at=v if kindp == "at" else None)
        return await base_session(sim, sc["shape"], inj)
    try:
        clientsim.run_session(go)
    except clientsim.Stall:
        sim.stop()
    if clientsim.STALLED[0] and "STALL" not in sim.events:
        sim.stop()
        sim.events.append("STALL")
    return sim


def trace_line(sim):
    return "client.run " + ",".join(e.replace(" ", "_") for e in sim.events if not e.startswith("--"))


def observations(sim):
    wire = ",".join("%d:%d:%d" % (c, *sim.packet_ids.get(b, (0, 0))) for c, b in sim.wire)
    return f"accepted st={sim.c.state.name} recv=- cb={len(sim.cb_log)} status={','.join(sim.status_log)} wire={wire}"


def suite_traces(ctx, n=None):
    s = common.Suite("client-traces", "scripted sessions of the four real clients under a virtual-time loop with a fake transport: connect scripts (accept / refuse 2 / refuse 6), "
                     "session shapes (receive only, one 3-packet send, three concurrent sends incl. an unencodable one), a fault or close() or extra connect() injected at every event-loop step 0..13 "
                     "and at 7 virtual times (inside retry waits, mid-packet, during callbacks and sends), callbacks/status callbacks that succeed, raise or are slow, drain() suspending 0-3 times; "
                     "the traced events must be accepted one by one by the client LTS and the final observations (state, callback count, status log, wire log) must equal the model's")
    sc = scenarios(ctx)
    n = n or (160 if ctx["tier"] == "quick" else 4000)
    stalls = 0
    for k, x in enumerate(sc[:n]):
        sim = run_scenario(x)
        s.add(trace_line(sim), observations(sim), f"{x['kind']}-{x['action']}", meta=x)
        stalls += "STALL" in sim.events
        if stalls >= 2:
            break           # the client stops yielding: every further session would only wait for the wall-clock alarm again
    return s.run()


# ----------------------------------------------------------------------------- C12: framing + delivery
def c12_stream(kind, rnd, n):
    """a stream of valid, malformed and unknown packets for the client kind: list of packet byte strings"""
    out = []
    for i in range(n):
        k = rnd.random()
        p = PACKET[kind](i)
        if k < 0.15:           # malformed
            if kind == "ebyte":
                p = bytes([0x88]) + bytes(rnd.getrandbits(8) for _ in range(12))       # random id/data: mostly unknown PGN
            elif kind == "waveshare":
                q = bytearray(p); q[rnd.randrange(2, 20)] ^= 0x40; p = bytes(q)        # bad checksum
            else:
                p = rnd.choice([b"garbage line %d\r\n" % i, b"garbage \xff\xfe line %d\r\n" % i, b"caf\xe9 %d \xc3\r\n" % i, b"\xf0\x9f\r\n"])    # incl. invalid UTF-8
                if rnd.random() < 0.4:
                    # a valid line damaged by bytes that are not text: it is not a sentence any more (dropping the bytes would repair it)
                    q = bytearray(PACKET[kind](i))
                    for _ in range(rnd.choice([1, 2])):
                        q.insert(rnd.randrange(14, len(q) - 2), rnd.choice([0xff, 0xfe, 0xc3, 0x80]))
                    p = bytes(q)
        elif k < 0.32 and k >= 0.25:   # well-framed, but the per-PGN decoder raises (out-of-range payload)
            bad = bytes([0xFE] * 8)
            if kind == "ebyte":
                p = ebyte_packet(i, bad)
            elif kind == "waveshare":
                from nmea2000.utils import calculate_canbus_checksum
                body = bytes([0xaa, 0x55, 1, 2, 1]) + (0x19F21401).to_bytes(4, "little") + bytes([8]) + bad + b"\x00"
                p = body + bytes([calculate_canbus_checksum(body)])
            elif kind == "yd":
                p = b"12:00:00.000 R 19F21401 FE FE FE FE FE FE FE FE\r\n"
            else:
                p = b"A000001.000 01FF6 1F214 FEFEFEFEFEFEFEFE\r\n"
        elif k < 0.25:         # unknown PGN
            if kind == "ebyte":
                p = bytes([0x88]) + (0x19EE4401).to_bytes(4, "big") + bytes(8)
            elif kind == "yd":
                p = b"12:00:00.000 R 19EE4401 01 02 03 04 05 06 07 08\r\n"
            elif kind == "actisense":
                p = b"A000001.000 01FF6 1EE44 0102030405060708\r\n"
        if kind == "waveshare" and rnd.random() < 0.25:
            # line noise in front of the packet: marker-free (no 0xaa at all), so that no packet may be lost (C20)
            out.append(bytes(rnd.choice([0x00, 0x55, 0x11, 0xfe, 0xab]) for _ in range(rnd.choice([1, 2, 5, 19, 20, 21, 40]))))
        out.append(p)
    return out


def c12_segment(rnd, s, mode):
    if mode == "one":
        return [s[i:i + 1] for i in range(len(s))]
    if mode == "all":
        return [s[i:i + 100] for i in range(0, len(s), 100)] if len(s) > 100 else [s]
    cuts = sorted(set(rnd.randrange(1, len(s)) for _ in range(rnd.randrange(1, 8))))
    if mode == "marker":   # boundaries inside headers / line endings / the start marker
        for i in range(len(s) - 1):
            if s[i:i + 2] in (b"\r\n", b"\xaa\x55") or s[i] in (0x88,):
                cuts.append(i + 1)
        cuts = sorted(set(c for c in cuts if 0 < c < len(s)))
    out, prev = [], 0
    for c in cuts + [len(s)]:
        while c - prev > 100:
            out.append(s[prev:prev + 100]); prev += 100
        if c > prev:
            out.append(s[prev:c])
        prev = c
    return out


def c12_session(kind, packets, reads, cb_mode, eof=False, sim=None):
    """feed the reads to a connected client; returns the sim (callback log, read log, queue events)"""
    if _LOADED[0] != common.REPO:
        harness.load_repo()
        _LOADED[0] = common.REPO

    sim = sim or clientsim.Sim(kind, cb_mode=cb_mode)

    async def go():
        await sim.start()
        c = sim.c
        if kind == "waveshare":
            seen = []
            orig = c.decoder.decode_usb
            c.decoder.decode_usb = lambda pkt: (sim.read_log.append((1, bytes(pkt))), orig(pkt))[1]
        sim.decoder_inputs = []         # text clients: the strings handed to the decoder (after the client's own decoding and stripping)
        for meth in ("decode_actisense_string", "decode_yacht_devices_string"):
            def wrapd(orig):
                return lambda line: (sim.decoder_inputs.append(line), orig(line))[1]
            setattr(c.decoder, meth, wrapd(getattr(c.decoder, meth)))
        await c.connect()
        await sim.settle(0.001)
        for r in reads:
            sim.feed(r)
            await sim.ticks(2)
        if eof:
            await sim.settle(0.5)
            sim.eof(1)             # the peer ends the stream, possibly in the middle of a packet
            await sim.settle(0.3)
        else:
            await sim.settle(0.5)
        await c.close()
        await sim.settle(0.05)
        sim.stop()
        return sim
    try:
        clientsim.run_session(go)
    except clientsim.Stall:
        sim.stop()
    if clientsim.STALLED[0]:
        sim.stop()
        sim.events.append("STALL")
        sim.stalled = "a task step ran for seconds of wall-clock time without yielding"
    return sim


def reference_outputs(kind, packets):
    """what a decoder with the same (default) settings returns for the stream's packets, in order"""
    import deccorr
    from nmea2000.decoder import NMEA2000Decoder
    d = NMEA2000Decoder()
    out = []
    for p in packets:
        try:
            if kind == "ebyte":
                m = d.decode_tcp(p)
            elif kind == "waveshare":
                m = d.decode_usb(p)
            elif kind == "yd":
                m = d.decode_yacht_devices_string(p.decode("utf-8", errors="replace").strip())
            else:
                m = d.decode_actisense_string(p.decode("utf-8", errors="replace").strip())
        except Exception:
            continue
        if m is not None:
            out.append(deccorr.canon_msg(m))
    return out


def suite_framing(ctx, n=None):
    import deccorr
    rnd = random.Random(ctx["seed"] + 82)
    s = common.Suite("client-framing", "streams of valid, malformed and unknown packets through the four real clients under segmentations (1 byte at a time, everything at once, random cuts, "
                     "cuts inside headers / line endings / the start marker) with callbacks that succeed, raise or are slow: the byte strings the client takes off the real StreamReader "
                     "(readexactly/readline; for the serial client the windows handed to decode_usb) vs Reader.feed13 / Reader.feedLines / Serial.feed on the same reads")
    q = common.Suite("client-queue", "the same runs: queue put / callback start / callback end events vs the queue machine (FIFO, each once, failures irrelevant)")
    hits = []
    n = n or (60 if ctx["tier"] == "quick" else 1200)
    n_stalls = 0
    for t in range(n):
        if n_stalls >= 2:
            break       # the client stops yielding: further sessions would only wait for the wall-clock alarm
        kind = clientsim.Sim.KINDS[t % 4]
        packets = c12_stream(kind, rnd, rnd.choice([1, 3, 8]))
        stream = b"".join(packets)
        # a third of the streams end in the middle of a packet: the fragment is not one of the stream's packets
        eof = rnd.random() < 0.34
        if eof:
            last = PACKET[kind](99)
            stream += last[:rnd.choice([len(last) - 1, len(last) - 2, len(last) - 3, len(last) - 4, len(last) // 2, 3])]
        reads = c12_segment(rnd, stream, rnd.choice(["one", "all", "rand", "marker"]))
        cbm = rnd.choice(["ok", ["ok", "raise"], "slow", ["raise", "slow", "ok"], ["ok", "cancelled", "ok", "ok"], ["ok", "badstr", "ok"]])
        sim = c12_session(kind, packets, reads, cbm, eof=eof)
        # what the client took off the reader as packets (at the end of the stream the StreamReader hands out the unterminated rest
        # and then b'': neither is a packet; whether the client treats them as one shows in the delivery comparison below)
        got = ",".join(harness.hx(b) for c_, b in sim.read_log if c_ == 1 and not (eof and kind in ("yd", "actisense") and not b.endswith(b"\n")))
        cmd = {"ebyte": "reader.feed13", "yd": "reader.lines", "actisense": "reader.lines"}.get(kind)
        if cmd == "reader.lines":
            # the text clients: what reaches the decoder is the model's lines, each decoded as UTF-8 (invalid bytes kept visible as U+FFFD) and stripped;
            # the unterminated rest at the end of the stream is not a line
            s.add(f"{cmd} {','.join(harness.hx(r) for r in reads)}", None, kind, meta=("lines", "\x00".join(getattr(sim, "decoder_inputs", []))))
        elif cmd:
            s.add(f"{cmd} {','.join(harness.hx(r) for r in reads)}", None, kind, meta=("prefix", got))
        else:
            s.add(f"serial.trace {','.join(harness.hx(r) for r in reads)}", None, kind, meta=("serial", got))
        q.add("queue.run " + (",".join(sim.qevents) or "-"), f"accepted delivered={','.join(str(i + 1) for i in range(len(sim.cb_log)))} queued=0", kind)
        exp = reference_outputs(kind, packets)
        gotm = [deccorr.canon_msg(m) for m in sim.cb_log]
        n_stalls += ("STALL" in sim.events or bool(getattr(sim, "stalled", None)))
        if getattr(sim, "stalled", None):
            hits.append({"kind": kind, "reads": [r.hex() for r in reads], "packets": [p.hex() for p in packets], "cb": cbm, "stall": True,
                         "what": f"{kind}: the client stopped yielding to the event loop ({sim.stalled})"})
        elif exp != gotm:
            hits.append({"kind": kind, "reads": [r.hex() for r in reads], "packets": [p.hex() for p in packets], "cb": cbm,
                         "what": f"{kind}: callback received {len(gotm)} messages, the decoder returns {len(exp)} for the stream's packets" +
                                 ("" if len(exp) != len(gotm) else " (same count, different content/order)")})
    # custom comparison: the model's packet list must equal what the client took off the reader
    got_lines = common.lean_run(s.reqs) if s.reqs else []
    s.disagreements = []
    for req, resp, meta in zip(s.reqs, got_lines, s.meta):
        if meta[0] == "serial":
            model = ",".join(x for step in resp.split(",") for x in step.split("/")[1].split(";") if x)
        else:
            model = resp.split(" ", 1)[1] if " " in resp else ""
        if meta[0] == "lines":
            model = "\x00".join(bytes.fromhex(x).decode("utf-8", errors="replace").strip() for x in model.split(",") if x)
        if model != meta[1]:
            s.disagreements.append({"request": req, "implementation": meta[1], "model": model, "meta": None})
    s.exp = [m[1] for m in s.meta]
    s.wall = 0
    return [s, q.run()], hits


def suite_long_lines(ctx, n=None):
    """the text clients on a StreamReader with a small line limit: lines shorter than, as long as and longer than the limit (valid sentences
    and garbage, several overlong lines in a row, overlong lines longer than two limits) under segmentations that cut inside and around
    them.  Correspondence: the lines handed to the decoder vs Reader.feedAllLim on the same reads.  Monitor (model-free): they are the
    stream's newline-terminated lines whose body is not longer than the limit, whatever the segmentation"""
    rnd = random.Random(ctx["seed"] + 83)
    s = common.Suite("client-long-lines", "Actisense / Yacht Devices clients on a real StreamReader with a line limit of 24..100 bytes: streams of valid and garbage lines of lengths "
                     "around and beyond the limit under segmentations (1 byte, all at once, random cuts, cuts at the limit and at line ends): the strings handed to the "
                     "decoder vs Reader.feedAllLim (readuntil + the client's overrun handling) on the same reads")
    hits = []
    n = n or (40 if ctx["tier"] == "quick" else 600)
    for t in range(n):
        kind = ("yd", "actisense")[t % 2]
        L = rnd.choice([24, 45, 60, 100])
        lines = []
        for i in range(rnd.choice([2, 4, 7])):
            k = rnd.random()
            if k < 0.4:
                lines.append(PACKET[kind](i))
            else:
                ln = rnd.choice([L - 2, L - 1, L, L + 1, L + 2, 2 * L + 3, 3 * L, rnd.randrange(0, 3 * L)])
                body = bytes(rnd.choice(b"ABCDEFxyz0123 ") for _ in range(max(ln, 0)))
                if rnd.random() < 0.3 and ln > 45:
                    # an overlong line whose tail would be a sentence of its own
                    v = PACKET[kind](i).rstrip(b"\r\n")
                    body = body[:max(ln - len(v), 0)] + v
                lines.append(body + rnd.choice([b"\n", b"\r\n"]))
        stream = b"".join(lines)
        # a third of the streams end without a newline — in the middle of a short line, of a line that is already overlong, or right behind an
        # overlong line's newline: the rest is not a line, and the end of the stream delivers nothing
        eof = rnd.random() < 0.34
        if eof:
            stream += bytes(rnd.choice(b"ABCDEFxyz0123 ") for _ in range(rnd.choice([0, 3, L - 1, L, L + 5, 2 * L + 1])))
        mode = rnd.choice(["one", "all", "rand", "limit"])
        if mode == "limit":
            cuts = sorted(set(c for c in [L, L + 1, L + 2] + [stream.find(b"\n", j) + d for j in range(0, len(stream), 17) for d in (0, 1)] if 0 < c < len(stream)))
            reads, prev = [], 0
            for c in cuts + [len(stream)]:
                if c > prev:
                    reads.append(stream[prev:c])
                prev = c
        else:
            reads = c12_segment(rnd, stream, mode)
        sim = clientsim.Sim(kind, cb_mode="ok")
        sim.force_limit = L
        sim = c12_session(kind, lines, reads, "ok", eof=eof, sim=sim)
        got = list(getattr(sim, "decoder_inputs", []))
        s.add(f"reader.linesLim {L} {','.join(harness.hx(r) for r in reads)}", None, f"{kind}-L{L}-{mode}{'-eof' if eof else ''}", meta=("lines", "\x00".join(got)))
        if eof and "status DISCONNECTED" not in sim.events:
            hits.append({"kind": "long-lines-" + kind, "reads": [r.hex() for r in reads], "packets": [p.hex() for p in lines], "cb": "ok", "limit": L, "eof": True,
                         "what": f"{kind}, line limit {L}: the stream ended (reads {[len(r) for r in reads][:12]}) and the client did not report DISCONNECTED"})
        exp = [l.decode("utf-8", errors="replace").strip() for l in lines if len(l) - 1 <= L]
        if got != exp:
            hits.append({"kind": "long-lines-" + kind, "reads": [r.hex() for r in reads], "packets": [p.hex() for p in lines], "cb": "ok", "limit": L, "eof": eof,
                         "what": f"{kind}, line limit {L}: the decoder was handed {len(got)} lines, the stream has {len(exp)} newline-terminated lines of at most {L} bytes "
                                 f"(line lengths {[len(l) - 1 for l in lines]}, reads {[len(r) for r in reads][:12]})"})
    got_lines = common.lean_run(s.reqs) if s.reqs else []
    s.disagreements = []
    for req, resp, meta in zip(s.reqs, got_lines, s.meta):
        model = resp.split(" ", 1)[1] if " " in resp else ""
        model = "\x00".join(bytes.fromhex(x).decode("utf-8", errors="replace").strip() for x in model.split(",") if x)
        if model != meta[1]:
            s.disagreements.append({"request": req, "implementation": meta[1], "model": model, "meta": None})
    s.exp = [m[1] for m in s.meta]
    s.wall = 0
    return [s], hits


# ----------------------------------------------------------------------------- monitors: the properties on the observations of a session
def monitor(sim, sc):
    """returns list of (property, key, what) violated by this real run"""
    out = []
    ev = sim.events
    kind = sc["kind"]
    closed_idx = next((i for i, e in enumerate(ev) if e == "status CLOSED"), None)
    close_call = next((i for i, e in enumerate(ev) if e.startswith("closeCall")), None)
    close_ret = next((i for i, e in enumerate(ev) if e == "closeReturn"), None)
    # C13: single receiver, no stall, back-off, recovery
    live = 0
    for e in ev:
        if e.startswith("recvStart"):
            live += 1
            if live > 1:
                out.append(("C13", "two-receivers", "two receive tasks alive at the same time"))
        elif e.startswith("recvExit"):
            live -= 1
    for e in ev:
        if e.startswith("apiRaised"):
            out.append(("C14" if sc["status"] == "raise" else "C13", "api-raised", f"an exception escaped from the client API: {e} (status callback mode {sc['status']})"))
    if "STALL" in ev:
        out.append(("C13", "stall", "the client stopped yielding to the event loop: a receive iteration neither suspended nor consumed input (wall-clock alarm or 200 idle iterations)"))
    k = 0
    for i, e in enumerate(ev):
        if e == "connCall":
            pass
        if e.startswith("implStart") and i > 0 and ev[i - 1] in ("connCall", "reconnCall"):
            k = 0
        if e == "implFail" or e.startswith("cfgFail"):
            k += 1
            nxt = ev[i + 1] if i + 1 < len(ev) else ""
            if nxt.startswith("sleep") and int(nxt.split()[1]) != min(500 * 2 ** (k - 1), 10000):
                out.append(("C13", "backoff", f"delay after failed attempt {k} is {nxt.split()[1]} ms, expected {min(500 * 2 ** (k - 1), 10000)}"))
            if nxt.startswith("sleep") and int(nxt.split()[1]) == 0:
                out.append(("C13", "zero-delay", "retry without delay"))
    fault = any(e.startswith(("envEof", "envReadErr", "writeFail", "drainFail")) for e in ev)
    if close_call is None or True:
        # state at the end of the scripted part (before the harness's final close): recover unless closed by the scenario
        pass
    # C13: never-zero delay: between a DISCONNECTED report and the next connection attempt there is a wait
    for i, e in enumerate(ev):
        if e == "status DISCONNECTED" and sc["status"] != "connect-on-disconnect" and sc["action"] not in ("connect", "eof-connect-timeout") and not sc.get("first_connect_timeout"):     # (a connect() the application itself issues is not a retry)
            j = next((k for k in range(i + 1, len(ev)) if ev[k].startswith("implStart")), None)
            if j is not None and not any(x.startswith(("sleep", "reconnSleep")) and int(x.split()[1]) > 0 for x in ev[i:j]):
                out.append(("C13", "zero-delay", "a connection attempt follows a DISCONNECTED report without any wait (a gateway that accepts and drops is reconnected to in a tight loop)"))
                break
    # C13: attempts are never closer together than the smallest retry delay, however many senders report the fault
    if sc["action"] not in ("connect", "eof-connect-timeout") and sc["status"] != "connect-on-disconnect" and not sc.get("first_connect_timeout"):
        ts = [t for e, t in zip(ev, getattr(sim, "event_times", [])) if e.startswith("implStart") and t is not None]
        gaps = [b - a for a, b in zip(ts, ts[1:])]
        if gaps and min(gaps) < 0.499:
            out.append(("C13", "retry-floor", f"two connection attempts {min(gaps):.3f} s apart ({len(ts)} attempts): the delay between attempts falls below the 0.5 s floor"))
    # C13: "retries for as long as needed" also while the application keeps sending into the dead link: the attempts go on
    if sc["shape"] == "flap":
        n_att = sum(1 for e in ev if e.startswith("implStart"))
        if n_att < 4 and "STALL" not in ev:
            out.append(("C13", "retry-starved", f"only {n_att} connection attempt(s) in the three seconds during which the gateway kept dropping the link and the application kept sending: "
                                                 "the failing sends keep the reconnect from happening"))
    # C19: a message sent on the current link goes out even if an earlier sender is stuck on a link that has been given up
    if "--sendStuck 1" in ev and fault:
        out.append(("C19", "send-blocked", "a sender suspended in drain() on a link that has been given up after a fault is never released: the link is replaced without being shut"))
    if "--sendStuck 15" in ev:
        out.append(("C19", "send-blocked", "send() on the connected link did not return within 3 s and wrote nothing: it waits behind a sender stuck on a link that has been replaced"))
    elif "sendCall 15" in ev and (closed_idx is None or closed_idx > ev.index("sendCall 15")):
        j = ev.index("sendCall 15")
        r = ev.index("sendReturn 15") if "sendReturn 15" in ev else len(ev)
        if closed_idx is None or closed_idx > r:
            if [x.split()[2:] for x in ev[j:r] if x.startswith("write ")] != [["15", "0"], ["15", "1"]] and not any(x.startswith(("writeFail", "drainFail")) for x in ev[j:r]):
                out.append(("C19", "send-incomplete", f"a message sent while CONNECTED was not written in full: {ev[j:r + 1]}"))
    # C19: what a send writes is what the encoder produces for that message (a fresh encoder in the same counter state), whatever the
    # client's encoder has encoded before; a message the encoder refuses writes nothing
    for sid, exp in getattr(sim, "expected_packets", {}).items():
        if f"sendCall {sid}" not in ev or (closed_idx is not None and closed_idx < ev.index(f"sendCall {sid}")):
            continue
        wrote = [b for c_, b, cur in sim.raw_writes if cur == sid]
        failed = any(x.startswith(("writeFail", "drainFail")) for x in ev[ev.index(f"sendCall {sid}"):])
        if wrote != (exp or []) and not (failed and wrote == (exp or [])[:len(wrote)]):
            out.append(("C19", "wrong-packets", f"message {sid} (real encoder, after other definitions of its PGN went through the client's encoder): wrote {[w.hex() for w in wrote]}, "
                                                f"a fresh encoder produces {[w.hex() for w in exp] if exp is not None else 'nothing (it refuses the message)'}"))
            break
    # C13: the receive path gives other tasks a turn: frames that are already buffered are not all processed in one event-loop step
    its = getattr(sim, "recv_loop_iters", [])
    run = 1
    for a, b in zip(its, its[1:]):
        run = run + 1 if a == b else 1
        if run >= 3:
            out.append(("C13", "no-yield", "three or more frames were received and processed within one event-loop step: buffered input is processed without giving other tasks a turn"))
            break
    # … and neither is a backlog in the queue delivered within one step (callbacks that do not suspend)
    its = getattr(sim, "cb_loop_iters", [])
    run = 1
    for a, b in zip(its, its[1:]):
        run = run + 1 if a == b else 1
        if run >= 3:
            out.append(("C13", "no-yield", "three or more queued messages were delivered to the callback within one event-loop step: a backlog is delivered without giving other tasks a turn"))
            break
    st = sim.status_log
    for a, b in zip(st, st[1:]):
        if a == b:
            out.append(("C14", "status-repeat", f"status {a} reported twice in a row"))
    if closed_idx is not None:
        if any(e.startswith("status") for e in ev[closed_idx + 1:]):
            out.append(("C14", "status-after-closed", f"status reported after CLOSED: {st}"))
        if any(e.startswith("implStart") for e in ev[closed_idx + 1:]):
            out.append(("C14", "connect-after-closed", "a connection attempt started after the state became CLOSED"))
    if sim.c.state.name != "CLOSED":
        out.append(("C14", "not-closed", f"state after close() is {sim.c.state.name}"))
    if close_ret is not None:
        if any(e.startswith("cb ") for e in ev[close_ret + 1:]):
            out.append(("C14", "callback-after-close", "receive callback ran after close() returned"))
        if sim.conns and not sim.conns[-1][2].closed and sim.c.writer is sim.conns[-1][2]:
            out.append(("C14", "link-open", "the link is still open after close() returned"))
        for name in getattr(sim, "tasks_alive", []):
            out.append(("C14", "task-alive", f"{name} still running at the end of the session, after close() returned"))
    # close() raising: with a single close() call nothing else can have cancelled the caller, so a CancelledError is the
    # client cancelling the very task close() runs in (two overlapping close() calls may legitimately cancel one another)
    for e in (getattr(sim, "close_raised", []) if sum(1 for x in ev if x.startswith("closeCall")) == 1 else [x for x in getattr(sim, "close_raised", []) if x != "CancelledError"]):
        out.append(("C14", "close-raised", f"close() did not return normally: {e} (status callback mode {sc['status']}, receive callback mode {sc['cb']})"))
    # C13 recovery: a fault that happened while CONNECTED and before any close must be followed by DISCONNECTED and (given time) CONNECTED again
    if fault and sc["action"] != "close" and sc["status"] != "close-on-disconnect":
        fi = next(i for i, e in enumerate(ev) if e.startswith(("envEof", "envReadErr", "writeFail", "drainFail")))
        before = [e for e in ev[:fi] if e.startswith("status")]
        after = [e.split()[1] for e in ev[fi:(close_call if close_call is not None else len(ev))] if e.startswith("status")]
        if before and before[-1] == "status CONNECTED" and sc["action"] in ("eof", "readerr", "garbage-eof"):
            if after[:2] != ["DISCONNECTED", "CONNECTED"]:
                out.append(("C13", "no-recovery", f"after a fault while CONNECTED the status sequence is {after} (expected DISCONNECTED then CONNECTED)"))
    # C13: whatever faults there were, a client that nobody closed is CONNECTED again in the end (the gateway accepts, and more than
    # ten seconds have passed since the last injected fault)
    closes = sc["action"] in ("close", "eof-close", "close-twice", "close-interrupted") or "close" in str(sc["cb"]) or "close" in sc["status"]
    t_fault = max([t for e, t in zip(ev, getattr(sim, "event_times", [])) if t is not None and e.startswith(("envEof", "envReadErr", "writeFail", "drainFail", "implFail"))] or [0])
    settled = getattr(sim, "time_at_end", 0) - t_fault > 5.0           # (a fault in the very last send of the session leaves no time to recover)
    if not closes and settled and sc["shape"] != "flap" and sc["action"] != "busy" and sc["connect"][-1] == "ok" and getattr(sim, "state_at_end", "CONNECTED") != "CONNECTED" and "STALL" not in ev:
        out.append(("C13", "not-recovered", f"at the end of the session (more than 5 s after the last fault, the gateway accepting) the client is {sim.state_at_end}: status log {sim.status_log}"))
    # C13: CONNECTED means that somebody reads from the link
    if getattr(sim, "state_at_end", None) == "CONNECTED" and not getattr(sim, "receiver_at_end", True) and "STALL" not in ev:
        out.append(("C13", "connected-without-receiver", "at the end of the session the client is CONNECTED but no receive task is running: nothing is delivered and the end of the stream goes unnoticed"))
    # C14: after close() has returned the client does nothing any more by itself (its seeding task sends no further request)
    if close_ret is not None and any(x.startswith("sendCall ") and int(x.split()[1]) > 200 for x in ev[close_ret + 1:]):
        out.append(("C14", "activity-after-close", "the client's network-map seeding task called send() after close() had returned"))
    # C14: when close() returns, the link has been shut (every close() call, also a second one)
    if "--closeReturnedLinkOpen" in ev:
        out.append(("C14", "link-open-at-return", "a close() call returned while the link was still open"))
    # C19: contiguity, order, bad messages harmless
    ids = [sim.packet_ids[b] for _, b in sim.wire if b in sim.packet_ids]
    seen_done = set()
    last = None
    for sid, idx in ids:
        if sid != last:
            if sid in seen_done:
                out.append(("C19", "interleaved", f"packets of message {sid} are interleaved with another message: wire order {ids}"))
                break
            if last is not None:
                seen_done.add(last)
            last = sid
    per = {}
    for sid, idx in ids:
        if idx != per.get(sid, 0):
            out.append(("C19", "out-of-order", f"message {sid}: packet {idx} written when {per.get(sid, 0)} was due"))
            break
        per[sid] = idx + 1
    for i, e in enumerate(ev):
        if e.startswith("sendCall") and 20 <= int(e.split()[1]) < 100:       # the scenario's deliberately unsendable messages
            sid = e.split()[1]
            j = next((j for j in range(i, len(ev)) if ev[j] == f"sendReturn {sid}"), len(ev))
            if closed_idx is None or closed_idx > j:
                if any(x.startswith(("status", "connCall", "reconn", "write ")) for x in ev[i:j]) or f"sendBad {sid}" not in ev[i:j]:
                    out.append(("C19", "unsendable-not-harmless", f"an unsendable message was not simply refused: {ev[i:j + 1]}"))
        if e.startswith("sendBad"):
            sid = e.split()[1]
            j = next((j for j in range(i, len(ev)) if ev[j] == f"sendReturn {sid}"), len(ev))
            if any(x.startswith(("status", "write ", "connCall", "reconn")) and (not x.startswith("write") or x.split()[2] == sid) for x in ev[i:j]):
                out.append(("C19", "unsendable-not-harmless", f"an unsendable message changed the connection: {ev[i:j + 1]}"))
    return out


def run_monitors(ctx, n):
    hits = {}
    sc = scenarios(ctx)
    stalls = 0
    for x in sc[:n]:
        sim = run_scenario(x)
        for prop, key, what in monitor(sim, x):
            hits.setdefault(prop, []).append({"key": f"{prop}/{key}", "what": what, "scenario": x})
        stalls += "STALL" in sim.events
        if stalls >= 2:
            break
    return hits
