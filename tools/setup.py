#!/venv/bin/python
"""MANIFEST.setup_cmd: regenerate the translated Lean sources from /repo and build every proof
obligation and the model driver once (offline; nothing is fetched)."""
import json
import sys
from pathlib import Path

sys.path.insert(0, str(Path(__file__).resolve().parent))
import common  # noqa: E402
import gen  # noqa: E402


def main():
    problems = gen.regenerate(common.REPO)
    for p in problems:
        print("translation problem:", p)
    man = json.loads((common.VERIF / "MANIFEST.json").read_text())
    targets = common.DRIVER_TARGETS + [f"N2k.Props.{c['property_id']}" for c in man["checks"]]
    ok, log = common.lake_build(targets, timeout=3400)
    print(log[-3000:])
    # a failing build here is not fatal for setup: each check rebuilds and reports on its own
    return 0


if __name__ == "__main__":
    sys.exit(main())
