#!/usr/bin/env python3
"""Regenerate the data tables of DESIGN.md (between `<!-- BEGIN:name -->` / `<!-- END:name -->` markers) from what the
machinery itself recorded: evidence/*.json (counts), known_findings.json (fixed / known), seeded/MATRIX.json (detection)."""
import json
import os
import re
import subprocess

V = "/verif"


def counts():
    rows = ["| id | property theorems | kernel-checked table theorems | obligations (theorems + suites) | correspondence cases (quick) | suites | quick wall time |", "|---|---|---|---|---|---|---|"]
    for i in range(1, 21):
        pid = f"C{i:02d}"
        e = json.load(open(f"{V}/evidence/{pid}.json"))
        cov = e["coverage"]
        th = cov["theorems"]
        tbl = [t for t in th if "/Tables/" in t["file"]]
        rows.append(f"| {pid} | {len(th) - len(tbl)} | {len(tbl)} | {cov['obligations']} | {cov['evaluations']} | {', '.join(s['suite'] for s in cov['correspondence'])} | {e['wall_s']} s |")
    return "\n".join(rows)


def fixes():
    d = json.load(open(f"{V}/known_findings.json"))["findings"]
    log = subprocess.run("git -C /repo log --format='%h %s' --reverse", shell=True, stdout=subprocess.PIPE, text=True).stdout.strip().split("\n")
    order = {l.split()[0]: i for i, l in enumerate(log)}
    subj = {l.split()[0]: l.split(" ", 1)[1] for l in log}
    by_commit = {}
    for f in d:
        if f["status"] == "fixed":
            by_commit.setdefault(f["commit"], []).append(f)
    rows = ["| # | commit | property | what failed (replay key in `tools/findings.py`) |", "|---|---|---|---|"]
    n = 0
    for c in sorted(by_commit, key=lambda c: order.get(c, 999)):
        n += 1
        fs = by_commit[c]
        rows.append(f"| {n} | {c} | {', '.join(sorted(set(f['property'] for f in fs)))} | {'; '.join(f['what'] + ' (`' + f['key'] + '`)' for f in fs)} |")
    missing = [c for c in order if subj[c].startswith("fix:") and c not in by_commit]
    if missing:
        rows.append(f"| | {', '.join(missing)} | | fix: commits without a recorded finding (follow-ups of the ones above): " + "; ".join(subj[c] for c in missing) + " |")
    return "\n".join(rows)


def known():
    d = json.load(open(f"{V}/known_findings.json"))["findings"]
    rows = ["| property | key | what fails, and why it is recorded rather than repaired |", "|---|---|---|"]
    for f in d:
        if f["status"] == "known":
            rows.append(f"| {f['property']} | `{f['key']}` | {f['what']} |")
    return "\n".join(rows)


def matrix():
    M = json.load(open(f"{V}/seeded/MATRIX.json"))
    rows = ["| seed | round | touches | detected by its own check | how | obligations still checking | first replay key | also detected by (when cross-run) |", "|---|---|---|---|---|---|---|---|"]
    for n in sorted(M):
        if not os.path.isdir(f"{V}/seeded/{n}"):
            continue
        own = n.split("-")[0]
        v = M[n].get(own)
        if v is None:
            continue
        meta = json.load(open(f"{V}/seeded/{n}/meta.json"))
        files = set()
        for l in open(f"{V}/seeded/{n}/patch.diff"):
            if l.startswith("+++ b/"):
                files.add(l[6:].strip().replace("nmea2000/", ""))
        others = [c for c in M[n] if c != own and M[n][c]["detected"]]
        rows.append(f"| {n} | {meta.get('round', 1)} | {', '.join(sorted(files))} | {'yes' if v['detected'] else 'NO'} | {'failing input replayed' if v['with_failing_input'] else 'no-failing-input-found'} | "
                    f"{v['obligations']} | `{(v['violation_keys'] or [''])[0][:60]}` | {', '.join(others)} |")
    return "\n".join(rows)


def main():
    p = f"{V}/DESIGN.md"
    s = open(p).read()
    for name, fn in (("counts", counts), ("fixes", fixes), ("known", known), ("matrix", matrix)):
        a, b = f"<!-- BEGIN:{name} -->", f"<!-- END:{name} -->"
        if a in s and b in s:
            s = s[:s.index(a) + len(a)] + "\n" + fn() + "\n" + s[s.index(b):]
    open(p, "w").write(s)


if __name__ == "__main__":
    main()
