"""Scripted sessions of the real gateway clients (nmea2000/ioclient.py) under a virtual-time event loop with a fake transport,
traced from outside (no hooks in /repo): every run yields the list of events the client LTS (lean/N2k/Model/Client.lean) must
accept, plus the observations (callback log, wire log, status log).  Used by C12, C13, C14, C19."""
import asyncio
import heapq
import logging

import harness


class VLoop(asyncio.SelectorEventLoop):
    """event loop with virtual time: when nothing is ready, the clock jumps to the next timer"""
    def __init__(self):
        super().__init__()
        self._vt = 0.0
        self.iterations = 0

    def time(self):
        return self._vt

    def _run_once(self):
        self.iterations += 1
        sched = self._scheduled
        while sched and sched[0]._cancelled:
            h = heapq.heappop(sched)
            h._scheduled = False
        if not self._ready and sched:
            when = sched[0]._when
            if when > self._vt:
                self._vt = when
        super()._run_once()


class FakeWriter:
    def __init__(self, sim, conn):
        self.sim = sim
        self.conn = conn
        self.closed = False
        self.closed_event = asyncio.Event()
        self.peer_gone = False          # the peer has closed the link completely: writes fail

    def write(self, b):
        sim = self.sim
        k = sim.write_count
        sim.write_count += 1
        sim.raw_writes.append((self.conn, bytes(b), sim.current_send()))
        if self.closed or self.peer_gone or sim.fail_write_at == k or (bytes(b) in sim.packet_ids and sim.packet_ids[bytes(b)][0] in sim.fail_sids):
            if bytes(b) in sim.packet_ids:
                sim.emit(f"writeFail {self.conn} {sim.packet_ids[bytes(b)][0]}")
            else:
                sim.emit(f"cfgFail {self.conn}")
            raise ConnectionResetError("write failed")
        if bytes(b) not in sim.packet_ids:
            sim.emit(f"cfgWrite {self.conn}")       # not a message packet: the serial client's configuration packet
            return
        sim.wire.append((self.conn, bytes(b)))
        sid, idx = sim.packet_ids[bytes(b)]
        sim.emit(f"write {self.conn} {sid} {idx}")

    async def drain(self):
        sim = self.sim
        k = sim.drain_count
        sim.drain_count += 1
        if sim.fail_drain_at == k:
            sim.emit(f"drainFail {self.conn}" if sim.send_stack else f"cfgFail {self.conn}")
            raise ConnectionResetError("drain failed")
        mode = sim.drain_script[k % len(sim.drain_script)] if sim.drain_script else 0
        if mode == "stuck" and not (self.conn == 1 and sim.send_stack):
            mode = 0        # only the first link's peer stops reading, and only once messages are being sent
        if mode == "stuck":
            # the peer has stopped reading: drain() returns only when the link is shut, and then with an error
            await self.closed_event.wait()
            sim.emit(f"drainFail {self.conn}")
            raise ConnectionResetError("Connection lost")
        for _ in range(mode):
            await sim._real_sleep(0)

    def close(self):
        if not self.closed:
            self.sim.emit(f"writerClose {self.conn}")
        self.closed = True
        self.closed_event.set()
        # as with a real transport: shutting the link ends the stream for whoever still reads from it
        r = getattr(self, "reader", None)
        if r is not None and not r._eof and r.exception() is None:
            r.feed_eof()

    def get_extra_info(self, *_):
        return None


class BadStr(Exception):
    """an exception that cannot be formatted"""
    def __str__(self):
        raise RuntimeError("no text for this exception")


class Sim:
    """one session: a client of the given kind, a connect script, and tracing wrappers"""
    KINDS = ("ebyte", "actisense", "yd", "waveshare")

    def __init__(self, kind, connect_script=None, cb_mode="ok", status_mode="ok", drain_script=None, **client_kw):
        self.kind = kind
        self.events = []
        self.event_times = []
        self.own_sends = 0
        self.fail_sids = set()          # send ids whose writes fail (the link resets under them)
        self.connected_sends = 0
        self.cb_loop_iters = []         # event-loop iteration in which each receive callback started
        self.raw_writes = []            # (connection, bytes, send id or '-') of every write, whatever it is
        self.expected_packets = {}      # send id -> packets a fresh encoder produces for that message (None: it refuses)
        self.close_raised = []
        self.recv_loop_iters = []
        self.stopping = False
        self.connect_script = list(connect_script or ["ok"])     # per attempt: "ok" | "refuse" | ("slow", n_ticks) then ok
        self.attempts = 0
        self.conns = []                 # (conn id, reader, writer)
        self.wire = []
        self.cb_log = []
        self.status_log = []
        self.cb_mode = cb_mode
        self.status_mode = status_mode
        self.drain_script = drain_script
        self.fail_write_at = None
        self.fail_drain_at = None
        self.write_count = 0
        self.drain_count = 0
        self.send_stack = []
        self.client_kw = client_kw
        self.sleeps = []
        self.gate = None
        self.idle_iters = 0
        self.put_log = []
        self.qevents = []
        self.read_log = []              # (conn, bytes) returned by readexactly/readline of the real StreamReader
        self.packet_ids = {}            # packet bytes -> (send id, index), registered by the scenario

    def emit(self, e):
        self.events.append(e)
        try:
            self.event_times.append(asyncio.get_event_loop().time())
        except RuntimeError:
            self.event_times.append(None)

    def current_send(self):
        return self.send_stack[-1] if self.send_stack else "-"

    # ------------------------------------------------------------------ set-up
    async def start(self):
        import nmea2000.ioclient as io_
        self.io = io_
        sim = self

        async def fake_open(*a, **kw):
            k = sim.attempts
            sim.attempts += 1
            mode = sim.connect_script[min(k, len(sim.connect_script) - 1)]
            sim.emit(f"implStart {k + 1}")
            if isinstance(mode, tuple) and mode[0] == "slow":
                sim.gate = asyncio.Event()
                await sim.gate.wait()
                mode = "ok"
            if mode == "refuse":
                sim.emit("implFail")
                raise ConnectionRefusedError("refused")
            if mode == "unreachable":
                # failures that are OSErrors but not ConnectionErrors: no route to host / the serial device node is missing
                sim.emit("implFail")
                if sim.kind == "waveshare":
                    raise io_.serial_asyncio.serial.SerialException("could not open port: No such file or directory")
                raise OSError(113, "No route to host")
            lim = kw["limit"] if "limit" in kw else getattr(sim, "force_limit", None)       # force_limit: a small limit chosen by the harness
            reader = asyncio.StreamReader(**({"limit": lim} if lim is not None else {}))      # as open_connection does
            conn = len(sim.conns) + 1
            for meth in ("readexactly", "readline"):
                def wrap(orig, conn=conn):
                    async def f(*a):
                        r = await orig(*a)
                        sim.read_log.append((conn, bytes(r)))
                        return r
                    return f
                setattr(reader, meth, wrap(getattr(reader, meth)))
            w = FakeWriter(sim, conn)
            w.reader = reader
            sim.conns.append((conn, reader, w))
            sim.emit(f"implOk {conn}")
            return reader, w
        self._real_open = io_.asyncio.open_connection
        self._real_serial = io_.serial_asyncio.open_serial_connection
        io_.asyncio.open_connection = fake_open
        io_.serial_asyncio.open_serial_connection = fake_open
        cls = {"ebyte": io_.EByteNmea2000Gateway, "actisense": io_.ActisenseNmea2000Gateway, "yd": io_.YachtDevicesNmea2000Gateway,
               "waveshare": io_.WaveShareNmea2000Gateway}[self.kind]
        args = ("port",) if self.kind == "waveshare" else ("host", 1)
        c = cls(*args, **self.client_kw)
        self.c = c
        # tracing wrappers (instance level)
        orig_update = c._update_state

        async def update(new_state):
            before = c._state
            await orig_update(new_state)
        c._update_state = update

        async def status_cb(s):
            sim.status_log.append(s.name)
            sim.emit(f"status {s.name}")
            if sim.status_mode == "raise":
                raise RuntimeError("status callback failed")
            if sim.status_mode == "badstr":
                raise BadStr()
            if sim.status_mode == "cancelled":
                # the callback awaits something that has been cancelled: CancelledError escapes from it
                t = asyncio.ensure_future(sim._real_sleep(10))
                t.cancel()
                await t
            if sim.status_mode == "slow" or (sim.status_mode == "slow-connected" and s.name == "CONNECTED"):
                await sim._real_sleep(0.05)
            if sim.status_mode == "close-on-disconnect" and s.name == "DISCONNECTED":
                await c.close()          # the user gives up on the first fault: close() from inside the status callback
            if sim.status_mode == "send-on-connected" and s.name == "CONNECTED":
                # the application greets the gateway whenever the link comes up; the first two links reset under that message
                import clientcorr
                sim.connected_sends += 1
                m = clientcorr.make_msg(240 + min(sim.connected_sends, 14), 1)
                if sim.connected_sends <= 2:
                    sim.fail_sids.add(m._sid)
                await c.send(m)
            if sim.status_mode == "close-on-reconnected" and s.name == "CONNECTED" and sim.status_log.count("CONNECTED") >= 2:
                await c.close()          # the user closes when the link comes back: close() from inside the reconnect task's connect()
            if sim.status_mode == "connect-on-disconnect" and s.name == "DISCONNECTED":
                await c.connect()        # "on disconnect, reconnect" written by the user although the client does it by itself
        c.set_status_callback(status_cb)

        orig_put = c.queue.put

        async def put(m):
            sim.put_log.append(m)
            sim.qevents.append(f"put_{len(sim.put_log)}")
            await orig_put(m)
        c.queue.put = put

        async def recv_cb(m):
            sim.cb_log.append(m)
            sim.emit(f"cb {len(sim.cb_log)}")
            sim.cb_loop_iters.append(asyncio.get_event_loop().iterations)
            k = next((i + 1 for i, x in enumerate(sim.put_log) if x is m), 0)
            sim.qevents.append(f"cbStart_{k}")
            try:
                await recv_cb_body(m)
            except BaseException:
                sim.qevents.append("cbEnd_1")
                raise
            sim.qevents.append("cbEnd_0")

        async def recv_cb_body(m):
            mode = sim.cb_mode[(len(sim.cb_log) - 1) % len(sim.cb_mode)] if isinstance(sim.cb_mode, (list, tuple)) else sim.cb_mode
            if mode == "raise":
                raise RuntimeError("receive callback failed")
            if mode == "badstr":
                raise BadStr()
            if mode == "slow":
                await sim._real_sleep(0.05)
            if mode == "close":
                await c.close()
            if mode == "cancelled":
                # the callback awaits something that has been cancelled: CancelledError escapes from it
                t = asyncio.ensure_future(sim._real_sleep(10))
                t.cancel()
                await t
        c.set_receive_callback(recv_cb)
        orig_loop = c._receive_loop

        async def receive_loop():
            conn = sim.conns[-1][0] if sim.conns else 0
            sim.emit(f"recvStart {conn}")
            try:
                await orig_loop()
            except asyncio.CancelledError:
                sim.emit(f"recvExit {conn} cancelled")
                raise
            sim.emit(f"recvExit {conn} returned")
        c._receive_loop = receive_loop
        orig_impl = c._receive_impl

        async def receive_impl():
            loop = asyncio.get_event_loop()
            conn, reader = next(((k, r) for k, r, w in sim.conns if r is c.reader), (0, None))
            it0 = loop.iterations
            avail0 = (len(reader._buffer) if reader is not None else 0) + (len(c._buffer) if getattr(c, "_buffer", None) is not None else 0)
            await orig_impl()
            avail1 = (len(reader._buffer) if reader is not None else 0) + (len(c._buffer) if getattr(c, "_buffer", None) is not None else 0)
            progress = loop.iterations > it0 or avail1 < avail0
            sim.emit(f"recvIter {conn} {1 if progress else 0}")
            sim.recv_loop_iters.append(loop.iterations)
            sim.idle_iters = 0 if progress else sim.idle_iters + 1
            if sim.idle_iters > 200:
                sim.emit("STALL")
                raise asyncio.CancelledError()      # break a non-yielding spin so that the session terminates
        c._receive_impl = receive_impl
        orig_encode = c._encode_impl

        def encode_impl(m):
            try:
                return orig_encode(m)
            except Exception:      # whatever the encoder raises: the message cannot be sent as such
                sim.emit(f"sendBad {getattr(m, '_sid', 0)}")
                raise
        c._encode_impl = encode_impl
        # the reconnect task (scheduled after a fault): its life cycle, and the connect() it issues, are events of their own
        sim.reconn_tasks = set()
        sim.reconn_connecting = set()
        if hasattr(c, "_reconnect"):
            orig_reconnect = c._reconnect

            async def reconnect():
                t = asyncio.current_task()
                sim.reconn_tasks.add(t)
                sim.emit("reconnStart")
                try:
                    await orig_reconnect()
                finally:
                    sim.reconn_tasks.discard(t)
                    if not sim.stopping:        # (the harness cancels what is still pending when it tears the loop down)
                        sim.emit("reconnEnd")
            c._reconnect = reconnect
        sim.abandoning_tasks = set()
        if hasattr(c, "_shut_link"):
            orig_shut = c._shut_link

            def shut_link():
                t = asyncio.current_task()
                if t in sim.abandoning_tasks:
                    sim.abandoning_tasks.discard(t)
                elif t in sim.reconn_connecting and c.state.name == "CONNECTED" and sim.conns:
                    # inside connect(), after CONNECTED was reported: the call has been cancelled and gives its link up
                    sim.emit(f"connGiveUp {next((k for k, r, w in sim.conns if w is c.writer), 0)}")
                return orig_shut()
            c._shut_link = shut_link
        orig_connect = c.connect

        async def connect():
            if asyncio.current_task() is getattr(c, "_receive_task", None) and c._receive_task is not None:
                # connect() from the status callback that the receive task runs: one event, it must return at once
                sim.emit("connCallInRecv")
                await orig_connect()
                return
            t = asyncio.current_task()
            sim.emit("reconnCall" if t in sim.reconn_tasks else "connCall")
            rt = getattr(c, "_receive_task", None)
            if c.state.name == "CONNECTED" and (rt is None or rt.done()) and not c.lock.locked() and sim.conns:
                # the situation a cancelled connect() leaves behind: CONNECTED, and nobody reads from the link
                sim.emit(f"abandon {next((k for k, r, w in sim.conns if w is c.writer), 0)}")
                sim.abandoning_tasks.add(t)
            sim.reconn_connecting.add(t)
            try:
                await orig_connect()
            except asyncio.CancelledError:
                # cancelled by its caller (wait_for) while it held the lock — not by close(), which is reported as a return
                held = c.state.name != "CLOSED" and t.cancelling() > 0 and not sim.stopping
                sim.reconn_connecting.discard(t)
                sim.emit("connCancel" if held else "connReturn")
                raise
            except BaseException:
                sim.reconn_connecting.discard(t)
                sim.emit("connReturn")
                raise
            sim.reconn_connecting.discard(t)
            sim.emit("connReturn")
        c.connect = connect
        orig_send = c.send

        async def send(m):
            sid = getattr(m, "_sid", None)
            if sid is None or getattr(m, "_own", False):
                # a message the client sends by itself (network map seeding; it reuses one object): number every send of it so that
                # its packets can be attributed
                sim.own_sends += 1
                sid = m._sid = 200 + sim.own_sends
                m._npk, m._own = 1, True
            sim.emit(f"sendCall {sid}")
            sim.send_stack.append(sid)
            try:
                await orig_send(m)
            finally:
                sim.send_stack.remove(sid)
                sim.emit(f"sendReturn {sid}")
        c.send = send
        orig_close = c.close

        async def close():
            # close() called from inside the receive task (from the status callback that task runs) is a different event
            # for the model: the caller is the receive task, which is then not cancelled and ends by itself
            inside = asyncio.current_task() is getattr(c, "_receive_task", None)
            in_reconn = asyncio.current_task() in getattr(sim, "reconn_tasks", ())
            sim.emit("closeCallInRecv" if inside else ("closeCallInReconn" if in_reconn else "closeCall"))
            try:
                await orig_close()
            except BaseException as e:
                if not sim.stopping:
                    sim.emit(f"--closeRaised {type(e).__name__}")
                    sim.close_raised.append(type(e).__name__)
                # a close() that its caller cancelled (wait_for) did not return: what is true afterwards is not promised
                sim.emit("closeAbort" if isinstance(e, asyncio.CancelledError) and asyncio.current_task().cancelling() > 0 else "closeReturn")
                raise
            w = c.writer
            if w is not None and not getattr(w, "closed", True) and not sim.stopping:
                sim.emit("--closeReturnedLinkOpen")
            sim.emit("closeReturn")
        c.close = close
        # sleeps of the client and of its retry machinery (the harness itself uses sim.pause, which is not traced)
        self._real_sleep = asyncio.sleep

        async def traced_sleep(delay, result=None):
            if delay and delay > 0:
                t = asyncio.current_task()
                own = t in sim.reconn_tasks and t not in sim.reconn_connecting     # the reconnect task's own wait, before it calls connect()
                sim.emit(f"{'reconnSleep' if own else 'sleep'} {int(round(delay * 1000))}")
            return await sim._real_sleep(delay, result)
        asyncio.sleep = traced_sleep

    async def pause(self, seconds=0.0):
        await self._real_sleep(seconds)

    def stop(self):
        self.stopping = True
        asyncio.sleep = self._real_sleep
        self.io.asyncio.open_connection = self._real_open
        self.io.serial_asyncio.open_serial_connection = self._real_serial

    # ------------------------------------------------------------------ driving
    def reader(self, conn=None):
        return (self.conns[-1] if conn is None else self.conns[conn - 1])[1]

    def feed(self, data, conn=None):
        k = (self.conns[-1] if conn is None else self.conns[conn - 1])[0]
        r = self.reader(conn)
        if r._eof or r.exception() is not None:
            return          # the peer has already closed / reset this link
        self.emit(f"envFeed {k}")
        r.feed_data(data)

    def busy(self, conn=None):
        """the EByte gateway refuses service on an established link: it sends the 13 bytes 'Sorry,Limited'"""
        k = (self.conns[-1] if conn is None else self.conns[conn - 1])[0]
        r = self.reader(conn)
        if r._eof or r.exception() is not None:
            return
        self.emit(f"envReadErr {k}")       # for the model: a fault of this link
        r.feed_data(b"Sorry,Limited")

    def eof(self, conn=None, gone=False):
        k = (self.conns[-1] if conn is None else self.conns[conn - 1])[0]
        if gone:
            (self.conns[-1] if conn is None else self.conns[conn - 1])[2].peer_gone = True
        if self.reader(conn)._eof or self.reader(conn).exception() is not None:
            return
        self.emit(f"envEof {k}")
        self.reader(conn).feed_eof()

    def read_error(self, conn=None):
        k = (self.conns[-1] if conn is None else self.conns[conn - 1])[0]
        self.emit(f"envReadErr {k}")
        self.reader(conn).set_exception(ConnectionResetError("reset by peer"))

    async def ticks(self, n=1):
        for _ in range(n):
            await self._real_sleep(0)

    async def settle(self, seconds=0.0, max_iter=2000):
        """let the client run: advance virtual time by `seconds` (the loop jumps the clock when idle)"""
        await self._real_sleep(seconds)
        await self.ticks(3)


class Stall(BaseException):
    pass


STALLED = [False]       # set by the wall-clock alarm of the last session


def run_session(coro_fn, wall_limit=3.0):
    """run `await coro_fn()` on a fresh virtual-time loop. A wall-clock alarm turns a task step that never yields
    (a spin inside the client) into a `Stall` exception, so that a hang becomes a recorded observation."""
    import signal
    loop = VLoop()
    asyncio.set_event_loop(loop)
    logging.disable(logging.CRITICAL)

    STALLED[0] = False

    def on_alarm(signum, frame):
        STALLED[0] = True
        raise Stall("a task step ran for more than %.0f s of wall-clock time without yielding" % wall_limit)
    old = signal.signal(signal.SIGALRM, on_alarm)
    signal.setitimer(signal.ITIMER_REAL, wall_limit, 1.0)
    try:
        return loop.run_until_complete(coro_fn())
    finally:
        signal.setitimer(signal.ITIMER_REAL, 0)
        signal.signal(signal.SIGALRM, old)
        try:
            pending = [t for t in asyncio.all_tasks(loop) if not t.done()]
            for t in pending:
                t.cancel()
            if pending:
                loop.run_until_complete(asyncio.gather(*pending, return_exceptions=True))
        finally:
            loop.close()
            asyncio.set_event_loop(None)
