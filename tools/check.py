#!/venv/bin/python
"""Per-property check driver.  usage: check.py Cxx [--tier quick|thorough] | --replay <file>

exit 0: property held on everything explored (KNOWN-FINDING lines allowed)
exit 1: VIOLATION property=<id> replay=<path>   (… no-failing-input-found when the search found none)
exit 2: harness error (timeouts, crashed tooling) — never reported as a pass
"""
import argparse
import importlib
import json
import os
import re
import subprocess
import sys
import time
import traceback
from pathlib import Path

sys.path.insert(0, str(Path(__file__).resolve().parent))
import common  # noqa: E402
import gen  # noqa: E402


def run_findings(prop):
    """past failures first: replay the recorded concrete inputs of this property on the real code"""
    keys = [f["key"] for f in common.known_findings() if f["property"] == prop]
    script = common.VERIF / "tools" / "findings.py"
    rc, out = common.sh([common.PY, str(script), "--repo", common.REPO] + (keys or ["__none__"]), timeout=600)
    res = {}
    for line in out.split("\n"):
        m = re.match(r"^(HOLDS|FAILS) (\S+) :: (.*)$", line)
        if m:
            res[m.group(2)] = {"holds": m.group(1) == "HOLDS", "detail": m.group(3)}
    return res


def main():
    ap = argparse.ArgumentParser()
    ap.add_argument("prop", nargs="?")
    ap.add_argument("--tier", default=os.environ.get("VERIF_TIER", "quick"))
    ap.add_argument("--replay")
    a = ap.parse_args()
    if a.replay:
        rp = json.loads(Path(a.replay).read_text())
        mod = importlib.import_module(f"props.{rp['property']}")
        ok, detail = mod.replay(rp)
        print(("HOLDS " if ok else "FAILS ") + detail)
        return 0 if ok else 1
    prop, tier = a.prop, a.tier
    seed = int(os.environ.get("VERIF_SEED", "0"))
    t0 = time.time()
    mod = importlib.import_module(f"props.{prop}")
    known = {f["key"]: f for f in common.known_findings() if f["property"] == prop}
    violations = []      # dicts: key, what, replay(obj), found_input(bool)
    notes = []

    # 0. corpus of past failures, on the real code
    fres = run_findings(prop)
    for k, r in fres.items():
        if not r["holds"]:
            violations.append({"key": k, "what": r["detail"], "found_input": True,
                               "replay": {"kind": "finding", "finding": k, "cmd": f"{common.PY} tools/findings.py {k}"}})

    # 1. regenerate the models that are translated from the source
    problems = gen.regenerate(common.REPO)
    rel_problems = [p for p in problems if mod.problem_relevant(p)] if hasattr(mod, "problem_relevant") else problems

    # 2. proof obligations
    thms = []
    for f in mod.PROP_FILES:
        thms += [(f, *t) for t in common.theorems_in(f)]
    ok_driver, dlog = common.lake_build(common.DRIVER_TARGETS)
    ok_build, log = common.lake_build(mod.LEAN_TARGETS)
    if not ok_driver:
        ok_build, log = False, dlog + log
    broken = []
    audit = {}
    if not ok_build:
        for m in re.finditer(r"error: (N2k/[\w/]+\.lean):(\d+):", log):
            f, ln = m.group(1), int(m.group(2))
            hit = [t[1] for t in thms if t[0] == f and t[2] <= ln <= t[3]]
            broken.append(hit[0] if hit else f"{f}:{ln}")
        if not broken:
            broken.append("lake build failed: " + log[-600:])
    else:
        for f in mod.PROP_FILES:
            names = [t[1] for t in thms if t[0] == f]
            module = f[:-5].replace("/", ".")
            audit.update(common.audit_axioms(module, names))
        for n, ax in audit.items():
            bad = [x for x in ax if x not in common.ALLOWED_AXIOMS]
            if bad:
                broken.append(f"{n}: axioms {bad}")
        if tier == "thorough":
            # independent re-check of the compiled proofs (the toolchain's own replay of the .olean files through the kernel)
            mods = [f[:-5].replace("/", ".") for f in mod.PROP_FILES]
            rc, out = common.sh(["lake", "env", "leanchecker"] + mods, cwd=common.LEAN, timeout=3000)
            notes.append(f"leanchecker {' '.join(mods)}: rc={rc}")
            if rc != 0:
                broken.append("leanchecker: " + out[-400:])
    for h in common.forbidden_scan(mod.PROP_FILES + ["N2k/Driver/Core.lean"]):
        broken.append("forbidden token: " + h)
    for p in rel_problems:
        broken.append("translation: " + p)
    broken = sorted(set(broken))

    # 3. correspondence (only meaningful when the driver built)
    suites = []
    corr_broken = []
    ctx = {"tier": tier, "seed": seed, "repo": common.REPO}
    if ok_driver:
        try:
            suites = mod.correspondence(ctx)
        except Exception as e:
            traceback.print_exc()
            corr_broken.append({"suite": "harness", "error": f"{type(e).__name__}: {e}"})
        for s in suites:
            if s.disagreements:
                corr_broken.append({"suite": s.name, "count": len(s.disagreements), "first": s.disagreements[:5]})

    # 4. failing-input search when an obligation or a tie no longer checks
    search_info = None
    if broken or corr_broken:
        try:
            found = mod.search(ctx, broken, corr_broken)
        except Exception as e:
            traceback.print_exc()
            found = []
            notes.append(f"search crashed: {type(e).__name__}: {e}")
        search_info = {"candidates": getattr(mod, "LAST_SEARCH_CANDIDATES", None), "hits": len(found)}
        if found:
            for v in found:
                v.setdefault("found_input", True)
                violations.append(v)
        else:
            violations.append({"key": f"{prop}/unproved", "what": "proof obligation or correspondence no longer checks",
                               "found_input": False,
                               "replay": {"kind": "broken-obligation", "broken_theorems": broken, "broken_correspondence": corr_broken}})

    # 4b. standing search: the property's monitor (the statement evaluated on the real code, no model) also runs when
    #     nothing broke.  Model and code can agree on behaviour that no theorem constrains; the monitor is what sees a
    #     violation there.  It also keeps recorded (known, unrepaired) findings visible as KNOWN-FINDING lines.
    search_crashed = False
    if not (broken or corr_broken):
        try:
            standing = getattr(mod, "standing_search", None) or (lambda c: mod.search(c, [], []))
            for v in standing(ctx):
                v.setdefault("found_input", True)
                violations.append(v)
            search_info = {"candidates": getattr(mod, "LAST_SEARCH_CANDIDATES", None), "hits": len(violations), "standing": True}
        except Exception as e:
            traceback.print_exc()
            notes.append(f"standing search crashed: {type(e).__name__}: {e}")
            search_crashed = True

    # 4c. a broken obligation or tie that the search did not explain with a NEW failing input stays a violation:
    #     inputs already recorded as known findings do not explain it
    if (broken or corr_broken) and not any(not (known.get(v["key"]) and known[v["key"]]["status"] == "known") for v in violations):
        violations.append({"key": f"{prop}/unproved", "what": "proof obligation or correspondence no longer checks", "found_input": False,
                           "replay": {"kind": "broken-obligation", "broken_theorems": broken, "broken_correspondence": corr_broken}})

    # 5. known findings / report
    n_viol = 0
    seen = set()
    known_hit = []
    for v in violations:
        if v["key"] in seen:
            continue
        seen.add(v["key"])
        k = known.get(v["key"])
        if k and k["status"] == "known":
            print(f"KNOWN-FINDING: property={prop} {v['key']} {k['what']}")
            known_hit.append(v["key"])
            continue
        n_viol += 1
        if n_viol > 5:
            continue        # at most five VIOLATION lines per run; the rest are counted in the evidence file
        rp = {"property": prop, "key": v["key"], "what": v["what"], "tier": tier, "seed": seed, **v["replay"]}
        path = common.OUT / "replays" / f"{prop}-{common.short_hash(rp)}.json"
        common.write_json(path, rp)
        tail = "" if v["found_input"] else " no-failing-input-found"
        print(f"VIOLATION property={prop} replay={path}{tail}")
    # `known` entries that no longer fail are reported for information only
    n_suites = len(suites)
    obligations = len(thms) + max(n_suites, len(getattr(mod, "SUITE_NAMES", [])))
    discharged = (len([t for t in thms if t[1] not in broken]) if ok_build else 0) + len([s for s in suites if not s.disagreements])
    ev = {
        "property_id": prop, "tier": tier, "seed": seed, "level": "proof",
        "coverage": {
            "obligations": obligations, "discharged": discharged,
            "checker_cmd": "cd /verif/lean && lake build " + " ".join(mod.LEAN_TARGETS) + "  # then #print axioms on every theorem of " + ", ".join(mod.PROP_FILES),
            "trusted_base": common.TRUSTED_BASE + getattr(mod, "TRUSTED_EXTRA", []),
            "theorems": [{"name": t[1], "file": t[0], "statement": t[4], "axioms": audit.get(t[1])} for t in thms],
            "broken": broken,
            "correspondence": [s.summary() for s in suites],
            "evaluations": sum(len(s.reqs) for s in suites),
            "distinct_nontrivial": sum(len(set(s.reqs)) for s in suites),
            "rule": "; ".join(f"{s.name}: {s.rule}" for s in suites),
            "samples": [x for s in suites for x in s.summary()["samples"][:2]] or [{"theorem": t[1]} for t in thms[:3]],
            "translation_problems": problems,
            "past_failures_replayed": fres,
            "known_findings_hit": known_hit,
            "search": search_info,
            "exhaustive": bool(getattr(mod, "EXHAUSTIVE", False)),
        },
        "assumptions": getattr(mod, "ASSUMPTIONS", []),
        "wall_s": round(time.time() - t0, 2),
        "violations": n_viol,
        "notes": notes,
    }
    common.write_json(common.OUT / "evidence" / f"{prop}.json", ev)
    print(f"{prop} tier={tier} seed={seed}: {discharged}/{obligations} obligations, "
          f"{ev['coverage']['evaluations']} correspondence cases, {n_viol} violations, {ev['wall_s']}s")
    if search_crashed and not n_viol:
        # the monitor that evaluates the property on the real code did not run to its end: that is a broken check, not a pass
        print("HARNESS-ERROR the standing search crashed (see the traceback above)")
        return 2
    return 1 if n_viol else 0


if __name__ == "__main__":
    try:
        sys.exit(main())
    except subprocess.TimeoutExpired as e:
        print("HARNESS-ERROR timeout:", e)
        sys.exit(2)
    except Exception:
        traceback.print_exc()
        print("HARNESS-ERROR")
        sys.exit(2)
