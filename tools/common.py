"""Shared machinery for the per-property checks (see DESIGN.md section 2.3)."""
import fcntl
import hashlib
import json
import os
import re
import subprocess
import sys
import time
from pathlib import Path

VERIF = Path(__file__).resolve().parent.parent
REPO = os.environ.get("VERIF_REPO", "/repo")
LEAN = Path(os.environ.get("VERIF_LEAN", VERIF / "lean"))    # scratch copy of the lake project (seed testing)
OUT = Path(os.environ.get("VERIF_OUT", VERIF))               # where evidence/ and replays/ are written
PY = "/venv/bin/python"
# everything `lean --run N2k/Driver/Main.lean` imports (the driver is interpreted; its imports must be compiled)
DRIVER_TARGETS = ["N2k.Driver.Core", "N2k.Driver.Pgn", "N2k.Driver.Dec", "N2k.Driver.ClientDrv", "N2k.Driver.JsonDrv"]
ALLOWED_AXIOMS = {"propext", "Classical.choice", "Quot.sound"}
FORBIDDEN = re.compile(r"\b(sorry|admit|native_decide|bv_decide|implemented_by)\b|^\s*axiom\s|\bunsafe\s|maxHeartbeats\s+0\b")

TRUSTED_BASE = [
    "Lean 4.33 kernel; axioms allowed: propext, Classical.choice, Quot.sound (audited by #print axioms on every run); no sorry/native_decide/bv_decide/own axioms",
    "T2 translator tools/translate_py.py (Python ast -> Lean defs over Nat) for _extract_header, _build_header, decode_int, calculate_canbus_checksum and the checker _check_header; validated by differential runs",
    "T3 correspondence (differential testing of the hand-written Lean models against the real code in-process) bounds what the hand models can claim",
    "CPython int/float arithmetic modelled as exact rationals with an explicit round-to-nearest-even (Model/Num.lean); overflow to inf and the sign of zero are not modelled",
]


def sh(cmd, cwd=None, timeout=3600, env=None, input_=None):
    e = dict(os.environ)
    if env:
        e.update(env)
    p = subprocess.run(cmd, cwd=cwd, timeout=timeout, env=e, input=input_, stdout=subprocess.PIPE,
                       stderr=subprocess.STDOUT, text=True, shell=isinstance(cmd, str))
    return p.returncode, p.stdout


class BuildLock:
    def __enter__(self):
        (LEAN / ".lake").mkdir(exist_ok=True)
        self.f = open(LEAN / ".lake" / "verif.lock", "w")
        fcntl.flock(self.f, fcntl.LOCK_EX)
        return self

    def __exit__(self, *a):
        fcntl.flock(self.f, fcntl.LOCK_UN)
        self.f.close()


def lake_build(targets, timeout=3000):
    with BuildLock():
        rc, out = sh(["lake", "build"] + list(targets), cwd=LEAN, timeout=timeout)
    return rc == 0, out


def lean_run(lines, timeout=1800):
    """run the model driver on request lines; returns the response lines"""
    inp = "\n".join(lines) + "\n"
    rc, out = sh(["lake", "env", "lean", "--run", "N2k/Driver/Main.lean"], cwd=LEAN, timeout=timeout, input_=inp)
    res = out.split("\n")
    if res and res[-1] == "":
        res.pop()
    if rc != 0 or len(res) != len(lines):
        raise RuntimeError(f"lean driver failed rc={rc} got {len(res)} lines for {len(lines)} requests: {out[-2000:]}")
    return res


def theorems_in(relpath):
    """[(qualified_name, first_line, last_line, statement_one_line)] of theorems in a Lean source file"""
    src = (LEAN / relpath).read_text().split("\n")
    ns = []
    starts = []
    for i, l in enumerate(src):
        m = re.match(r"^namespace\s+(\S+)", l)
        if m:
            ns.append(m.group(1))
            continue
        m = re.match(r"^end\s+(\S+)", l)
        if m and ns and ns[-1] == m.group(1):
            ns.pop()
            continue
        m = re.match(r"^theorem\s+([A-Za-z0-9_'.]+)", l)
        if m:
            starts.append((i, ".".join(ns + [m.group(1)])))
    out = []
    for k, (i, name) in enumerate(starts):
        end = starts[k + 1][0] - 1 if k + 1 < len(starts) else len(src) - 1
        stmt = []
        for l in src[i:end + 1]:
            stmt.append(l.strip())
            if ":= by" in l or l.rstrip().endswith(":="):
                break
        out.append((name, i + 1, end + 1, " ".join(stmt)[:400]))
    return out


def strip_comments(text):
    text = re.sub(r"/-.*?-/", "", text, flags=re.S)
    return re.sub(r"--.*", "", text)


def import_closure(relpaths):
    """project files (relative to lean/) reachable through `import N2k.…` from the given files"""
    seen, todo = [], list(relpaths)
    while todo:
        f = todo.pop()
        if f in seen or not (LEAN / f).exists():
            continue
        seen.append(f)
        for m in re.finditer(r"^import\s+(N2k(?:\.\w+)+)", (LEAN / f).read_text(), flags=re.M):
            todo.append(m.group(1).replace(".", "/") + ".lean")
    return sorted(seen)


def forbidden_scan(relpaths):
    """forbidden tokens (outside comments) in the import closure of the given files"""
    hits = []
    for f in import_closure(relpaths):
        body = strip_comments((LEAN / f).read_text())
        for n, l in enumerate(body.split("\n"), 1):
            if FORBIDDEN.search(l):
                hits.append(f"{f}:{n}: {l.strip()[:120]}")
    return hits


def audit_axioms(module, names):
    """#print axioms for each (fully qualified) theorem; returns {name: [axioms]} ; raises on failure"""
    src = f"import {module}\n" + "".join(f"#print axioms {n}\n" for n in names)
    tmp = LEAN / ".lake" / f"audit_{module.replace('.', '_')}_{os.getpid()}.lean"
    tmp.write_text(src)
    try:
        rc, out = sh(["lake", "env", "lean", str(tmp)], cwd=LEAN, timeout=1200)
    finally:
        tmp.unlink(missing_ok=True)
    res = {}
    flat = re.sub(r"\s+", " ", out)
    for n in names:
        m = re.search(r"'%s' (does not depend on any axioms|depends on axioms: \[([^\]]*)\])" % re.escape(n), flat)
        if not m:
            raise RuntimeError(f"axiom audit failed for {n}: {out[-1500:]}")
        res[n] = [] if m.group(2) is None else [a.strip() for a in m.group(2).split(",") if a.strip()]
    return res


def known_findings():
    return json.loads((VERIF / "known_findings.json").read_text())["findings"]


def write_json(path, obj):
    path = Path(path)
    path.parent.mkdir(parents=True, exist_ok=True)
    tmp = path.with_suffix(path.suffix + ".tmp")
    tmp.write_text(json.dumps(obj, indent=1, sort_keys=True, default=str))
    tmp.replace(path)


def short_hash(obj):
    return hashlib.sha1(json.dumps(obj, sort_keys=True, default=str).encode()).hexdigest()[:10]


class Suite:
    """A correspondence suite: the same request lines go to the real code (the caller computes
    `expected` in-process) and to the Lean model driver; canonical strings are compared."""

    def __init__(self, name, rule):
        self.name = name
        self.rule = rule
        self.reqs = []
        self.exp = []
        self.meta = []
        self.dist = {}

    def add(self, req, expected, klass="case", meta=None):
        self.reqs.append(req)
        self.exp.append(expected)
        self.meta.append(meta)
        self.dist[klass] = self.dist.get(klass, 0) + 1

    def run(self):
        t0 = time.time()
        got = lean_run(self.reqs) if self.reqs else []
        self.disagreements = []
        for i, (r, e, g) in enumerate(zip(self.reqs, self.exp, got)):
            if e != g:
                self.disagreements.append({"request": r, "implementation": e, "model": g, "meta": self.meta[i]})
        self.wall = time.time() - t0
        return self

    def summary(self):
        distinct = len(set(self.reqs))
        return {
            "suite": self.name, "cases": len(self.reqs), "distinct": distinct, "rule": self.rule,
            "distribution": self.dist, "disagreements": len(self.disagreements),
            "samples": [{"request": r, "response": e} for r, e in list(zip(self.reqs, self.exp))[:3]],
            "wall_s": round(getattr(self, "wall", 0), 2),
        }
