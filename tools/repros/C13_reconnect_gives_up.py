"""C13: the client's own reconnect task gives up for good when some other connect() call holds the connect lock at
the moment it wakes up ("connect is already running").  If that other call does not bring the link back - an
application call bounded with a timeout - nobody retries any more: the client stays DISCONNECTED for ever although
the gateway accepts connections again.

usage: python repro3.py <checkout>      exit 1 = defect shown, 0 = not shown
"""
import asyncio, logging, sys
sys.path.insert(0, sys.argv[1] if len(sys.argv) > 1 else ".")
import nmea2000.ioclient as io
from nmea2000.ioclient import EByteNmea2000Gateway, State

logging.disable(logging.CRITICAL)


class FakeWriter:
    def __init__(self, reader):
        self.reader, self.closed = reader, False
    def get_extra_info(self, key, default=None):
        return default
    def write(self, data):
        pass
    async def drain(self):
        if self.closed:
            raise ConnectionResetError("Connection lost")
    def close(self):
        if not self.closed:
            self.closed = True
            asyncio.get_running_loop().call_soon(self.reader.feed_eof)


async def main():
    loop = asyncio.get_running_loop()
    t0 = loop.time()
    gateway = {"up": True}
    attempts, links = [], []
    async def open_connection(host, port, **kw):
        attempts.append(round(loop.time() - t0, 2))
        await asyncio.sleep(0)
        if not gateway["up"]:
            raise ConnectionRefusedError("gateway is down")
        r = asyncio.StreamReader()
        links.append((r, FakeWriter(r)))
        return links[-1]
    io.asyncio.open_connection = open_connection

    client = EByteNmea2000Gateway("gateway", 1)
    trace = []

    async def bounded_connect():
        try:
            await asyncio.wait_for(client.connect(), 0.8)    # "try to get it back, but do not hang for ever"
        except asyncio.TimeoutError:
            pass

    async def on_status(state):
        trace.append((round(loop.time() - t0, 2), state.name))
        if state == State.DISCONNECTED:
            asyncio.create_task(bounded_connect())

    client.set_status_callback(on_status)
    await client.connect()
    await asyncio.sleep(0.05)
    # the gateway goes down for 1.5 s
    gateway["up"] = False
    loop.call_later(1.5, gateway.__setitem__, "up", True)
    links[0][0].feed_eof()
    await asyncio.sleep(12)
    print("status trace:", trace)
    print("connection attempts at:", attempts, "(gateway down from 0.05 to 1.55)")
    print("state 12 s after the fault:", client.state.name, "| reconnect task:",
          "finished" if client._reconnect_task and client._reconnect_task.done() else client._reconnect_task)
    bad = client.state != State.CONNECTED
    await client.close()
    if bad:
        print("DEFECT: the gateway has been accepting again for 10 s, but the client made no attempt after the "
              "application's bounded connect() ended: its reconnect task had returned with 'connect is already running'")
        return 1
    return 0


sys.exit(asyncio.run(main()))
