#!/usr/bin/env python
"""repro1: the polling reconnect task (b7bcb77) reconnects with (almost) no delay after a fault.

C13: "... retries for as long as needed with a growing, capped, never-zero delay between attempts ..."
_reconnect() docstring: "A gateway that accepts connections and drops them right away must not be reconnected
to in a tight loop: the first attempt waits as long as the first retry of connect() does."  (0.5 s)

Scenario (no application connect() racing, no callbacks at all):
  t=0.00  the application starts connect(); the gateway refuses (attempt 1), refuses again at 0.5 (attempt 2)
  t=0.53  the application calls send() although the link is not up yet -> send() reports a fault and
          _schedule_reconnect() starts the reconnect task.  Since b7bcb77 that task never ends while the state is
          DISCONNECTED: it calls connect() every 0.5 s (1.03, 1.53, ...), which returns at once because the first
          connect() holds the lock
  t=1.50  attempt 3 (first connect()) is accepted; the gateway drops the link right away -> fault, DISCONNECTED;
          _schedule_reconnect() starts nothing because the polling task is "not done"
  t=1.53  the polling task's next tick: connect() -> attempt 4, about 0.03 s after the fault instead of >= 0.5 s

usage: repro1.py <checkout>     exit 1 = defect shows, exit 0 = not
"""
import sys
sys.path.insert(0, sys.argv[1] if len(sys.argv) > 1 else ".")
import asyncio, time, logging
import nmea2000.ioclient as ioc
from nmea2000.ioclient import YachtDevicesNmea2000Gateway, State
from nmea2000.message import NMEA2000Message

logging.disable(logging.CRITICAL)
T0 = time.monotonic()
def now(): return time.monotonic() - T0

class FakeWriter:
    """close() feeds EOF to the reader on a later loop iteration, as a real transport does"""
    def __init__(self, reader): self.reader = reader; self.closed = False; self.transport = None
    def get_extra_info(self, name, default=None): return default
    def write(self, data): pass
    async def drain(self):
        if self.closed: raise ConnectionResetError("Connection lost")
    def close(self):
        if not self.closed:
            self.closed = True
            asyncio.get_running_loop().call_soon(lambda: self.reader._eof or self.reader.feed_eof())
    def is_closing(self): return self.closed
    async def wait_closed(self): pass

attempts = []     # start time of every connection attempt
drops = []        # time at which the gateway dropped an accepted link

async def open_connection(host, port, **kw):
    n = len(attempts) + 1
    attempts.append(now())
    if n <= 2:
        raise ConnectionRefusedError("refused")
    reader = asyncio.StreamReader(); writer = FakeWriter(reader)
    if n == 3:
        # accepts and drops the link right away
        def drop():
            drops.append(now()); reader.feed_eof()
        asyncio.get_running_loop().call_later(0.002, drop)
    return reader, writer

ISO = ('{"PGN":59904,"id":"isoRequest","description":"ISO Request","fields":[{"id":"pgn","name":"PGN","description":null,'
       '"unit_of_measurement":null,"value":60928,"raw_value":60928,"physical_quantities":null,"type":[13],'
       '"part_of_primary_key":false}],"source":0,"destination":255,"priority":6,"timestamp":"2012-06-17T15:02:11",'
       '"source_iso_name":null,"hash":null}')

async def main():
    global T0
    ioc.asyncio.open_connection = open_connection
    client = YachtDevicesNmea2000Gateway("127.0.0.1", 1457)
    T0 = time.monotonic()
    first = asyncio.create_task(client.connect())
    await asyncio.sleep(0.53)
    await client.send(NMEA2000Message.from_json(ISO))      # link not up yet
    await asyncio.sleep(2.6 - now())
    await client.close()
    first.cancel()
    print("attempts at", [round(t, 3) for t in attempts], " gateway dropped link at", [round(t, 3) for t in drops])
    if len(attempts) < 4 or not drops:
        print("scenario did not unfold as planned (no fault / no reconnect seen): not judged"); return 0
    delay = attempts[3] - drops[0]
    if delay < 0.4:
        print(f"DEFECT: reconnect attempt {delay:.3f} s after the link was lost (must wait at least 0.5 s)")
        return 1
    print(f"ok: reconnect attempt {delay:.3f} s after the link was lost")
    return 0

sys.exit(asyncio.run(main()))
