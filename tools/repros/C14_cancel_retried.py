"""close() cancels the reconnect task, but connect() turns that cancellation into a retry.

usage: /venv/bin/python existing_defect_repro2.py <path-to-checkout>

connect() contains
        self._receive_task.cancel()
        try:
            await asyncio.sleep(0.01)  # Allow cancellation to propagate
        except asyncio.CancelledError:
            raise AssertionError("Super strange. not expected at all")
inside tenacity's `with attempt:` block whose retry condition is retry_if_exception_type(Exception).
When close() cancels the reconnect task while it is in this sleep, the CancelledError becomes an AssertionError,
tenacity logs "Retrying due to error" and puts the task to sleep for the back-off time (0.5 s): the reconnect
task survives close() and is still pending long after close() has returned.

Session shape: EByte client, slow status callback (0.8 s for DISCONNECTED), the gateway drops the link, the
application sends (a failing send asks for the reconnect while the receive task is still busy in the slow status
callback), close() is called from the receive callback right after the new link was reported CONNECTED.
"""
import asyncio
import logging
import sys

sys.path.insert(0, sys.argv[1] if len(sys.argv) > 1 else ".")

from nmea2000.ioclient import EByteNmea2000Gateway, State  # noqa: E402
from nmea2000.message import NMEA2000Message  # noqa: E402

REQ = ('{"PGN":59904,"id":"isoRequest","description":"ISO Request","fields":[{"id":"pgn","name":"PGN",'
       '"description":null,"unit_of_measurement":null,"value":60928,"raw_value":60928,"physical_quantities":null,'
       '"type":[13],"part_of_primary_key":false}],"source":0,"destination":255,"priority":6,'
       '"timestamp":"2012-06-17T15:02:11","source_iso_name":null,"hash":null}')


def frame():
    from nmea2000.encoder import NMEA2000Encoder
    return NMEA2000Encoder().encode_ebyte(NMEA2000Message.from_json(REQ))[0]


FRAME = frame()


async def main():
    logging.basicConfig(level=logging.WARNING)
    accepted = []

    async def handle(reader, writer):
        accepted.append(writer)
        if len(accepted) == 1:
            writer.write(FRAME)
            await writer.drain()
            await asyncio.sleep(0.05)
            writer.close()
        else:
            await reader.read()

    server = await asyncio.start_server(handle, "127.0.0.1", 0)
    port = server.sockets[0].getsockname()[1]
    client = EByteNmea2000Gateway("127.0.0.1", port)
    states = []
    lost = asyncio.Event()
    reconnected = asyncio.Event()

    async def on_status(state):
        states.append(state)
        if state == State.DISCONNECTED:
            lost.set()
            await asyncio.sleep(0.8)          # slow status callback
        elif state == State.CONNECTED and lost.is_set():
            reconnected.set()

    close_returned = asyncio.Event()

    async def on_message(msg):
        await reconnected.wait()              # the message is handled late (a slow consumer)
        await asyncio.sleep(0.002)
        await client.close()
        close_returned.set()

    client.set_status_callback(on_status)
    client.set_receive_callback(on_message)
    await client.connect()
    await lost.wait()
    await client.send(NMEA2000Message.from_json(REQ))   # fails on the dead link: asks for a reconnect
    await asyncio.wait_for(close_returned.wait(), 5)
    assert client.state == State.CLOSED

    await asyncio.sleep(0.2)
    mine = {asyncio.current_task()}
    leftovers = [t for t in asyncio.all_tasks() if t not in mine and not t.done()
                 and "ioclient" in t.get_coro().cr_code.co_filename]
    print("status trace:", [s.name for s in states])
    for t in leftovers:
        print("still pending 0.2 s after close() returned:", t.get_coro().__qualname__)
    server.close()
    bad = bool(leftovers)
    for t in leftovers:
        t.cancel()
    print("VIOLATION" if bad else "ok")
    return 1 if bad else 0


sys.exit(asyncio.run(main()))
