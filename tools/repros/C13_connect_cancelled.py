"""C13/C14: a connect() that is cancelled after CONNECTED was reported (while the status callback runs, or in the
10 ms wait after the old receive task was cancelled) leaves the client CONNECTED with an open link and NO receive
loop.  Every later connect() returns at once ("already connected"), nothing is ever delivered, and the end of the
stream is never noticed: no DISCONNECTED, no reconnect.

usage: python repro2.py <checkout>      exit 1 = defect shown, 0 = not shown
"""
import asyncio, logging, sys
sys.path.insert(0, sys.argv[1] if len(sys.argv) > 1 else ".")
import nmea2000.ioclient as io
from nmea2000.ioclient import EByteNmea2000Gateway, State
from nmea2000.encoder import NMEA2000Encoder
from nmea2000.message import NMEA2000Message

logging.disable(logging.CRITICAL)

ISO_REQUEST = ('{"PGN":59904,"id":"isoRequest","description":"ISO Request","fields":[{"id":"pgn","name":"PGN",'
               '"value":60928,"raw_value":60928,"type":[13]}],"source":1,"destination":255,"priority":6}')


class FakeWriter:
    def __init__(self, reader):
        self.reader, self.closed = reader, False
    def get_extra_info(self, key, default=None):
        return default
    def write(self, data):
        pass
    async def drain(self):
        if self.closed:
            raise ConnectionResetError("Connection lost")
    def close(self):
        if not self.closed:
            self.closed = True
            asyncio.get_running_loop().call_soon(self.reader.feed_eof)


async def main():
    links = []
    async def open_connection(host, port, **kw):
        await asyncio.sleep(0)
        r = asyncio.StreamReader()
        links.append((r, FakeWriter(r)))
        return links[-1]
    io.asyncio.open_connection = open_connection

    client = EByteNmea2000Gateway("gateway", 1)
    delivered, trace = [], []

    async def on_status(state):
        trace.append(state.name)
        if state == State.CONNECTED:
            await asyncio.sleep(0.3)          # e.g. publishes the new status somewhere

    async def on_message(msg):
        delivered.append(msg)

    client.set_status_callback(on_status)
    client.set_receive_callback(on_message)

    # connect() retries for ever, so an application bounds its wait
    try:
        await asyncio.wait_for(client.connect(), 0.1)
    except asyncio.TimeoutError:
        pass
    state_after_timeout = client.state
    await client.connect()                    # try again: returns at once, "connected"
    reader, writer = links[-1]
    frame = NMEA2000Encoder().encode_ebyte(NMEA2000Message.from_json(ISO_REQUEST))[0]
    for _ in range(3):
        reader.feed_data(frame)
    await asyncio.sleep(0.5)
    n_delivered = len(delivered)
    reader.feed_eof()                         # the gateway closes the connection
    await asyncio.sleep(2.0)
    receive_tasks = [t for t in asyncio.all_tasks() if not t.done()
                     and t.get_coro().__qualname__ == "AsyncIOClient._receive_loop"]
    print("state after the timed-out connect():", state_after_timeout.name, "| links opened:", len(links),
          "| link shut:", writer.closed)
    print("frames delivered of 3 sent by the gateway:", n_delivered)
    print("receive loops running:", len(receive_tasks), "| state 2 s after the gateway closed the stream:",
          client.state.name, "| status trace:", trace)
    bad = state_after_timeout == State.CONNECTED and (n_delivered != 3 or client.state == State.CONNECTED
                                                       and not receive_tasks)
    await client.close()
    if bad:
        print("DEFECT: the client reports CONNECTED but has no receive path; it neither delivers frames nor notices "
              "the lost link, and connect() cannot repair it")
        return 1
    return 0


sys.exit(asyncio.run(main()))
