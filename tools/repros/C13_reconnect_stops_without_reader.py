#!/usr/bin/env python
"""repro2: after a fault the client ends up CONNECTED with no receive loop, and the reconnect task has given up.

C13: "After any connection fault ... reports CONNECTED once the gateway accepts again and then delivers newly
received frames ..."
(188029b: "a connect() cancelled after CONNECTED was reported no longer leaves a link nobody reads";
 b7bcb77: "the reconnect task does not give up when another connect() call holds the lock ... and that one has
 given up since (cancelled by its caller, e.g. a timeout)")

Scenario:
  link 1 is up.  The gateway ends it -> DISCONNECTED.  The application reacts in its status callback with
  asyncio.wait_for(client.connect(), 1.0) in a task of its own; the library starts its reconnect task as well.
  The application's connect() is accepted at once (link 2) and reports CONNECTED; the application's CONNECTED
  callback is slow this time (1.5 s), so wait_for cancels connect() after 1.0 s: between CONNECTED and the start of
  the receive loop.
  The reconnect task woke up 0.5 s after the fault, found the lock taken, saw state CONNECTED (the status callback
  was still running) and ended (the `while self._state == State.DISCONNECTED` loop of b7bcb77 looks at the state only).
  Result: state CONNECTED for good, no receive loop, no reconnect task: frames on link 2 are never delivered and the
  end of link 2 is never noticed.  The repair of 188029b only helps if somebody calls connect() again - nobody does,
  the application believes the client is CONNECTED.

usage: repro2.py <checkout>     exit 1 = defect shows, exit 0 = not
"""
import sys
sys.path.insert(0, sys.argv[1] if len(sys.argv) > 1 else ".")
import asyncio, time, logging
import nmea2000.ioclient as ioc
from nmea2000.ioclient import YachtDevicesNmea2000Gateway, State

logging.disable(logging.CRITICAL)
T0 = time.monotonic()
def now(): return round(time.monotonic() - T0, 3)

class FakeWriter:
    """close() feeds EOF to the reader on a later loop iteration, as a real transport does"""
    def __init__(self, reader): self.reader = reader; self.closed = False; self.transport = None
    def get_extra_info(self, name, default=None): return default
    def write(self, data): pass
    async def drain(self):
        if self.closed: raise ConnectionResetError("Connection lost")
    def close(self):
        if not self.closed:
            self.closed = True
            asyncio.get_running_loop().call_soon(lambda: self.reader._eof or self.reader.feed_eof())
    def is_closing(self): return self.closed
    async def wait_closed(self): pass

links = []
async def open_connection(host, port, **kw):
    reader = asyncio.StreamReader(); writer = FakeWriter(reader)
    links.append(writer)
    print(f"{now():6.3f} gateway accepts link {len(links)}")
    return reader, writer

LINE = b"17:33:21.107 R 0DF01001 %02X F0 0A 47 00 00 00 00\r\n"      # PGN 126992, single frame

async def main():
    ioc.asyncio.open_connection = open_connection
    client = YachtDevicesNmea2000Gateway("127.0.0.1", 1457)
    got = []
    async def on_message(m):
        got.append(m.fields[0].value); print(f"{now():6.3f} delivered sid {m.fields[0].value}")
    n_connected = [0]
    async def app_reconnect():
        try:
            await asyncio.wait_for(client.connect(), 1.0)
        except asyncio.TimeoutError:
            print(f"{now():6.3f} application: connect() timed out")
    async def on_status(state):
        print(f"{now():6.3f} status {state.name}")
        if state == State.DISCONNECTED:
            asyncio.create_task(app_reconnect())
        elif state == State.CONNECTED:
            n_connected[0] += 1
            if n_connected[0] == 2:
                await asyncio.sleep(1.5)          # slow, once
    client.set_receive_callback(on_message)
    client.set_status_callback(on_status)
    await client.connect()
    links[0].reader.feed_data(LINE % 1)
    await asyncio.sleep(0.1)
    print(f"{now():6.3f} gateway ends link 1")
    links[0].reader.feed_eof()
    await asyncio.sleep(4.0)           # plenty of time for any reconnect (0.5 s steps)
    cur = links[-1]
    rt = client._receive_task
    print(f"{now():6.3f} state {client.state.name}, receive task alive: {rt is not None and not rt.done()}, "
          f"reconnect task alive: {client._reconnect_task is not None and not client._reconnect_task.done()}, links opened: {len(links)}")
    if not cur.closed:
        cur.reader.feed_data(LINE % 2)          # a new frame on the current link
    await asyncio.sleep(0.5)
    delivered = 2 in got
    if not cur.closed:
        cur.reader.feed_eof()                    # and the gateway ends that link as well
    await asyncio.sleep(1.5)
    noticed = client.state != State.CONNECTED or len(links) > links.index(cur) + 1
    state = client.state
    await client.close()
    if got[:1] != [1]:
        print("scenario did not unfold as planned: not judged"); return 0
    if state == State.CONNECTED and not delivered and not noticed:
        print("DEFECT: the client reports CONNECTED, but the frame sent on the current link was not delivered "
              "and the end of that link went unnoticed (no receive loop, no reconnect task)")
        return 1
    if not delivered:
        print("DEFECT: the frame sent on the current link was not delivered"); return 1
    print("ok: frame delivered after the fault")
    return 0

sys.exit(asyncio.run(main()))
