"""Existing defect 2 (weaker): the text clients delete every byte that is not valid UTF-8 from a line before
decoding it, so a line that was damaged on the wire is delivered as if it had been intact.

usage: /venv/bin/python existing_defect_repro2.py [path-to-checkout]   (exit 1 = defect shown)
"""
import asyncio
import logging
import os
import sys

sys.path.insert(0, sys.argv[1] if len(sys.argv) > 1 else "/tmp/seed5/C12")
sys.path.insert(0, os.path.dirname(os.path.abspath(__file__)))
from c12_harness import run_client, strip  # noqa: E402
from nmea2000.decoder import NMEA2000Decoder  # noqa: E402
from nmea2000.ioclient import ActisenseNmea2000Gateway, YachtDevicesNmea2000Gateway  # noqa: E402

logging.disable(logging.CRITICAL)

CASES = {
    # 0xFF / 0xFE / a lone 0xC3 inside the hex data: not hex digits, the line is not a packet
    "Actisense": (lambda p: ActisenseNmea2000Gateway("127.0.0.1", p), "decode_actisense_string",
                  b"A000057.055 09FF7 0FF00 3F9F\xffDCFF\xfeFFFFFFFF\r\n"),
    "YachtDevices": (lambda p: YachtDevicesNmea2000Gateway("127.0.0.1", p), "decode_yacht_devices_string",
                     b"00:01:54.430 R 15F1\xc31910 00 00 00 E5 0B 1D FF F\xffF\r\n"),
}


def reference(decode_name, stream):
    """The decoder on the lines as they are on the wire (bytes mapped 1:1 to characters, nothing deleted)."""
    decoder = NMEA2000Decoder()
    out = []
    for line in stream.split(b"\n")[:-1]:
        try:
            m = getattr(decoder, decode_name)(line.decode("latin-1").strip())
        except Exception as e:
            print("   decoder rejects the line:", type(e).__name__, e)
            m = None
        if m is not None:
            out.append(strip(m))
    return out


async def main():
    bad = False
    for name, (make, decode_name, line) in CASES.items():
        expected = reference(decode_name, line)
        got = [strip(m) for m in await run_client(make, [line])]
        bad |= got != expected
        print(f"{name}: wire line {line!r}: decoder returns {len(expected)} message(s), callback got {len(got)}"
              f"  {'ok' if got == expected else 'VIOLATION'}")
    sys.exit(1 if bad else 0)


asyncio.run(main())
