#!/usr/bin/env python
"""repro4: a connection attempt that fails after the link was opened leaves that link open for good - also after close().

C14: "... after close() returns no receive callback runs, the link has been shut and the client's background tasks finish."
(left behind by the earlier fix 7c34643 "a link that is given up after a fault is shut"; also relevant to 5500aa3,
 whose `writer is not self.writer` test assumes that self.writer only changes when a connect() succeeds)

_connect_impl() assigns self.reader/self.writer first and configures the link afterwards (TCP clients: four setsockopt
calls; Waveshare: write + drain of the configuration packet).  When that second step raises, the attempt counts as
failed and is retried - but the link it opened is never shut: the next attempt overwrites self.writer, and close() only
shuts the last one.

Here setsockopt fails for the first two links (as it does for every link on a platform without TCP_KEEPIDLE, where
it is an AttributeError).  Trigger is injected, hence low priority.

usage: repro4.py <checkout>     exit 1 = defect shows, exit 0 = not
"""
import sys
sys.path.insert(0, sys.argv[1] if len(sys.argv) > 1 else ".")
import asyncio, logging
import nmea2000.ioclient as ioc
from nmea2000.ioclient import YachtDevicesNmea2000Gateway, State

logging.disable(logging.CRITICAL)

class Sock:
    def __init__(self, fail): self.fail = fail
    def setsockopt(self, *a):
        if self.fail:
            raise OSError(22, "Invalid argument")

class FakeWriter:
    def __init__(self, reader, n): self.reader = reader; self.n = n; self.closed = False; self.transport = None
    def get_extra_info(self, name, default=None):
        return Sock(self.n <= 2) if name == "socket" else default
    def write(self, data): pass
    async def drain(self):
        if self.closed: raise ConnectionResetError("Connection lost")
    def close(self):
        if not self.closed:
            self.closed = True
            asyncio.get_running_loop().call_soon(lambda: self.reader._eof or self.reader.feed_eof())
    def is_closing(self): return self.closed
    async def wait_closed(self): pass

links = []
async def open_connection(host, port, **kw):
    reader = asyncio.StreamReader(); writer = FakeWriter(reader, len(links) + 1)
    links.append(writer)
    return reader, writer

async def main():
    ioc.asyncio.open_connection = open_connection
    client = YachtDevicesNmea2000Gateway("127.0.0.1", 1457)
    await asyncio.wait_for(client.connect(), 10)       # attempts 1 and 2 fail in setsockopt, attempt 3 succeeds
    assert client.state == State.CONNECTED
    await asyncio.sleep(0.1)
    await client.close()
    await asyncio.sleep(0.1)
    open_links = [w.n for w in links if not w.closed]
    print("links opened:", len(links), " still open after close() returned:", open_links)
    if open_links:
        print("DEFECT: links opened by failed attempts were never shut"); return 1
    print("ok"); return 0

sys.exit(asyncio.run(main()))
