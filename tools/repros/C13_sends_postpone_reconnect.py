#!/usr/bin/env python
"""C13 demo 1: every kind of connection fault must be followed by DISCONNECTED, new connection
attempts, CONNECTED and delivery of the frames received on the new connection.

Run as:  /venv/bin/python change1_demo.py <path-to-a-checkout>

A simulated gateway on localhost is driven through a sequence of faults against one long-lived
client object of each of the four client types (the serial client talks to the gateway through a
pyserial socket:// URL).  Faults: clean end of stream, connection reset (abortive close) while the
client is idle, reset while the client is sending, garbage followed by end of stream with the
gateway refusing connections for a while.  What is expected is taken from the property statement:
after each fault the status callback sees DISCONNECTED and then CONNECTED once the gateway accepts,
frames written by the gateway after that are delivered exactly once and in order (the expected
messages are derived by encoding with the library's own encoder, i.e. the inverse operation), failed
attempts are separated by growing, capped, non-zero delays, and a heartbeat task keeps running.
"""
import sys
sys.path.insert(0, sys.argv[1])

import asyncio
import logging
import socket
import struct
import time

from nmea2000.ioclient import (ActisenseNmea2000Gateway, EByteNmea2000Gateway, State,
                               WaveShareNmea2000Gateway, YachtDevicesNmea2000Gateway)
from nmea2000.decoder import NMEA2000Decoder
from nmea2000.encoder import NMEA2000Encoder

RECOVER_TIMEOUT = 6.0       # the first reconnect attempt is immediate; the gateway is accepting
failures = []


def fail(msg):
    failures.append(msg)
    print("FAIL:", msg)


# ---------------------------------------------------------------- frames (built by the inverse operation)
_template = NMEA2000Decoder().decode_yacht_devices_string("21:31:42.671 T 01F010B3 FF FF 0C 4F 70 BE 3E 33")
assert _template is not None


def frame(kind, source):
    """Wire bytes of one single-frame message with the given source address."""
    _template.source = source
    enc = NMEA2000Encoder()
    if kind == "ebyte":
        return enc.encode_ebyte(_template)[0]
    if kind == "waveshare":
        return enc.encode_usb(_template)[0]
    if kind == "yacht":
        return b"00:00:01.000 R " + enc.encode_yacht_devices(_template)[0]
    if kind == "actisense":
        return ("A000001.000 " + enc.encode_actisense(_template) + "\r\n").encode()
    raise AssertionError(kind)


GARBAGE = {"ebyte": b"\x01\x02\x03garbage", "waveshare": b"\x55\xaa\x00junk", "yacht": b"!!garbage!!\r\nxx",
           "actisense": b"!!garbage!!\r\nxx"}


# ---------------------------------------------------------------- simulated gateway
class Gateway:
    def __init__(self):
        self.server = None
        self.port = None
        self.conns = []          # (reader, writer, accept time)
        self.accept_event = asyncio.Event()

    async def start(self):
        self.server = await asyncio.start_server(self._on_client, "127.0.0.1", self.port or 0)
        self.port = self.server.sockets[0].getsockname()[1]

    async def stop_listening(self):
        self.server.close()     # (wait_closed() would wait for the open connections as well)
        await asyncio.sleep(0)

    async def _on_client(self, reader, writer):
        self.conns.append((reader, writer, time.monotonic()))
        self.accept_event.set()
        try:
            while await reader.read(4096):
                pass
        except Exception:
            pass

    @property
    def current(self):
        return self.conns[-1][1]

    async def write(self, data):
        self.current.write(data)
        await self.current.drain()

    def close_clean(self):
        self.current.close()

    def close_reset(self):
        try:
            sock = self.current.get_extra_info("socket")
            sock.setsockopt(socket.SOL_SOCKET, socket.SO_LINGER, struct.pack("ii", 1, 0))
        except OSError:
            pass    # already gone (only after an earlier failure)
        self.current.transport.abort()


class AttemptLog(logging.Handler):
    """Times of the connection attempts, taken from the library's own 'Connecting to' log records."""
    def __init__(self):
        super().__init__(logging.DEBUG)
        self.by_target = {}

    def emit(self, record):
        try:
            msg = record.getMessage()
        except Exception:
            return
        if msg.startswith("Connecting to "):
            self.by_target.setdefault(msg[len("Connecting to "):], []).append(time.monotonic())


# ---------------------------------------------------------------- one client under test
class Session:
    def __init__(self, kind, attempts):
        self.kind = kind
        self.attempts = attempts
        self.gw = Gateway()
        self.states = []
        self.got = []
        self.next_source = 1

    async def on_state(self, state):
        self.states.append((time.monotonic(), state))

    async def on_message(self, msg):
        self.got.append((msg.PGN, msg.source))

    async def wait_for(self, cond, timeout, what):
        deadline = time.monotonic() + timeout
        while time.monotonic() < deadline:
            if cond():
                return True
            await asyncio.sleep(0.01)
        if callable(what):
            what = what()
        fail(f"[{self.kind}] {what} (waited {timeout}s; states={[s.name for _, s in self.states[-4:]]})")
        return False

    async def expect_delivery(self, n, where):
        """Gateway writes n fresh frames; exactly these must be delivered, once, in order."""
        before = len(self.got)
        sources = list(range(self.next_source, self.next_source + n))
        self.next_source += n
        for s in sources:
            await self.gw.write(frame(self.kind, s))
        expected = [(_template.PGN, s) for s in sources]
        ok = await self.wait_for(lambda: len(self.got) - before >= n, 3.0,
                                 lambda: f"{where}: frames written by the gateway on the new connection were not "
                                         f"all delivered (expected {expected}, got {self.got[before:]})")
        await asyncio.sleep(0.1)
        if ok and self.got[before:] != expected:
            fail(f"[{self.kind}] {where}: delivered {self.got[before:]} instead of {expected}")

    async def expect_recovery(self, where, fault_time, n_conns_before, timeout=RECOVER_TIMEOUT):
        def disconnected():
            return any(t >= fault_time and s == State.DISCONNECTED for t, s in self.states)
        if not await self.wait_for(disconnected, 3.0, f"{where}: DISCONNECTED was not reported after the fault"):
            return False
        if not await self.wait_for(lambda: len(self.gw.conns) > n_conns_before, timeout,
                                   f"{where}: the gateway is accepting but saw no new connection attempt"):
            return False
        t_accept = self.gw.conns[-1][2]
        def connected():
            return self.states[-1][1] == State.CONNECTED and self.states[-1][0] >= fault_time
        if not await self.wait_for(connected, 2.0, f"{where}: CONNECTED was not reported after the gateway accepted"):
            return False
        if self.client.state != State.CONNECTED:
            fail(f"[{self.kind}] {where}: state property is {self.client.state}")
        return True

    async def sender(self):
        """Application traffic: keeps sending, so that write errors are part of every fault."""
        while True:
            _template.source = 200
            try:
                await self.client.send(_template)
            except Exception as e:     # send() must not leak connection errors
                fail(f"[{self.kind}] send() raised {e!r}")
            await asyncio.sleep(0.05)

    async def run(self):
        kind = self.kind
        await self.gw.start()
        if kind == "ebyte":
            self.client = EByteNmea2000Gateway("127.0.0.1", self.gw.port)
        elif kind == "yacht":
            self.client = YachtDevicesNmea2000Gateway("127.0.0.1", self.gw.port)
        elif kind == "actisense":
            self.client = ActisenseNmea2000Gateway("127.0.0.1", self.gw.port)
        else:
            self.client = WaveShareNmea2000Gateway(f"socket://127.0.0.1:{self.gw.port}")
        self.client.set_status_callback(self.on_state)
        self.client.set_receive_callback(self.on_message)
        try:
            await asyncio.wait_for(self.client.connect(), 5)
        except asyncio.TimeoutError:
            fail(f"[{kind}] initial connect did not finish")
            return
        await self.wait_for(lambda: self.gw.conns, 2, "initial connection not seen by the gateway")
        await self.expect_delivery(2, "healthy session")

        # 1. clean end of stream
        n, t = len(self.gw.conns), time.monotonic()
        self.gw.close_clean()
        if not await self.expect_recovery("after end of stream", t, n):
            return await self.client.close()    # the later steps need a recovered session
        await self.expect_delivery(2, "after end of stream")

        # 2. connection reset while the client is only reading
        n, t = len(self.gw.conns), time.monotonic()
        self.gw.close_reset()
        if not await self.expect_recovery("after a reset on read", t, n):
            return await self.client.close()
        await self.expect_delivery(2, "after a reset on read")

        # 3. reset while the application is sending (error on write and on read)
        snd = asyncio.create_task(self.sender())
        await asyncio.sleep(0.2)
        n, t = len(self.gw.conns), time.monotonic()
        self.gw.close_reset()
        ok = await self.expect_recovery("after a reset during sends", t, n)
        snd.cancel()
        if not ok:
            return await self.client.close()
        await self.expect_delivery(2, "after a reset during sends")

        # 4. garbage, end of stream, and the gateway refuses connections for a while
        target = f"127.0.0.1:{self.gw.port}" if kind != "waveshare" else f"socket://127.0.0.1:{self.gw.port}"
        await self.gw.write(GARBAGE[kind])
        await self.gw.stop_listening()
        n, t = len(self.gw.conns), time.monotonic()
        self.gw.close_clean()
        await asyncio.sleep(4.2)     # expected attempts at about +0, +0.5, +1.5, +3.5
        down_attempts = [a for a in self.attempts.by_target.get(target, []) if a >= t]
        await self.gw.start()
        up = time.monotonic()
        if self.client.state != State.DISCONNECTED:
            fail(f"[{kind}] gateway down: state is {self.client.state}, expected DISCONNECTED")
        gaps = [b - a for a, b in zip(down_attempts, down_attempts[1:])]
        if len(down_attempts) < 3:
            fail(f"[{kind}] gateway down for 4.2 s: only {len(down_attempts)} connection attempts")
        for i, g in enumerate(gaps):
            if g < 0.3:
                fail(f"[{kind}] gateway down: delay {g:.3f}s between attempts {i} and {i + 1} (must never be ~zero)")
            if g > 11:
                fail(f"[{kind}] gateway down: delay {g:.3f}s exceeds the cap")
            if i > 0 and g < gaps[i - 1] * 0.9 and gaps[i - 1] < 9:
                fail(f"[{kind}] gateway down: delays do not grow: {[round(x, 2) for x in gaps]}")
        if await self.expect_recovery("after garbage, end of stream and refused connects", t, n, timeout=11.0):
            await self.expect_delivery(3, "after garbage, end of stream and refused connects")

        # only one receive path: nothing was delivered twice (checked by expect_delivery) and at most one
        # task of this client runs the receive loop
        loops = [tk for tk in asyncio.all_tasks()
                 if getattr(tk.get_coro(), "__qualname__", "").endswith("_receive_loop")
                 and getattr(tk.get_coro(), "cr_frame", None) is not None
                 and tk.get_coro().cr_frame.f_locals.get("self") is self.client]
        if len(loops) > 1:
            fail(f"[{kind}] {len(loops)} receive loops are active")
        await self.client.close()


async def main():
    attempts = AttemptLog()
    lib_logger = logging.getLogger("nmea2000.ioclient")
    lib_logger.setLevel(logging.INFO)
    lib_logger.addHandler(attempts)
    lib_logger.propagate = False
    logging.getLogger("asyncio").setLevel(logging.CRITICAL)
    logging.getLogger("nmea2000").addHandler(logging.NullHandler())    # keep the library's warnings off stderr

    beats = []

    async def heartbeat():
        while True:
            beats.append(time.monotonic())
            await asyncio.sleep(0.01)

    hb = asyncio.create_task(heartbeat())
    sessions = [Session(k, attempts) for k in ("ebyte", "yacht", "actisense", "waveshare")]
    results = await asyncio.gather(*(asyncio.wait_for(s.run(), 50) for s in sessions), return_exceptions=True)
    for s, r in zip(sessions, results):
        if isinstance(r, BaseException):
            fail(f"[{s.kind}] scenario did not complete: {r!r}")
    hb.cancel()
    worst = max(b - a for a, b in zip(beats, beats[1:]))
    if worst > 1.0:
        fail(f"heartbeat task starved for {worst:.2f}s")
    print(f"heartbeat: {len(beats)} beats, worst gap {worst:.3f}s")


if __name__ == "__main__":
    asyncio.run(main())
    if failures:
        print(f"{len(failures)} violation(s) of C13")
        sys.exit(1)
    print("C13 demo 1: all fault sequences recovered")
    sys.exit(0)
