"""Common harness: a localhost 'gateway' that sends a list of chunks, one write per chunk, and a client."""
import asyncio
import socket
import sys


async def run_client(make_client, chunks, *, callback=None, settle=0.3, gap=0.004, close_after=True, port_holder=None):
    """Start a server on a free localhost port, connect the client made by make_client(port), send chunks
    (each as its own write, separated by `gap` seconds), wait `settle`, return list of delivered messages."""
    got = []
    conns = []
    ready = asyncio.Event()

    async def handle(reader, writer):
        sock = writer.get_extra_info("socket")
        sock.setsockopt(socket.IPPROTO_TCP, socket.TCP_NODELAY, 1)
        conns.append(writer)
        ready.set()
        try:
            while await reader.read(1000):
                pass
        except Exception:
            pass

    server = await asyncio.start_server(handle, "127.0.0.1", 0)
    port = server.sockets[0].getsockname()[1]
    client = make_client(port)

    async def cb(msg):
        got.append(msg)
        if callback is not None:
            await callback(msg, len(got))

    client.set_receive_callback(cb)
    await client.connect()
    await asyncio.wait_for(ready.wait(), 5)
    w = conns[0]
    for c in chunks:
        if callable(c):
            await c(w)
            continue
        w.write(c)
        await w.drain()
        if gap:
            await asyncio.sleep(gap)
    await asyncio.sleep(settle)
    await client.close()
    for w in conns:
        w.close()
    server.close()
    return got


def strip(msg):
    """Comparable view of a message: everything but the timestamp."""
    return (msg.PGN, msg.id, msg.source, msg.destination, msg.priority,
            tuple((f.id, repr(f.value), repr(f.raw_value), f.unit_of_measurement) for f in msg.fields))
