"""A backlog built up behind a receive callback that waited is delivered in one go without the delivery
task ever yielding: the stall of other tasks grows linearly with the number of frames the peer has sent.

usage: /venv/bin/python existing_defect_repro2.py <checkout> [N]     exit 1 = stall proportional to the backlog seen
"""
import sys, asyncio, logging
sys.path.insert(0, sys.argv[1])
logging.disable(logging.CRITICAL)
from nmea2000.ioclient import EByteNmea2000Gateway

FRAME = bytes.fromhex("88" + "09F11210" + "00E50B1DFFFF7FFF")

async def main():
    N = int(sys.argv[2]) if len(sys.argv) > 2 else 100000
    conns = []
    async def handler(r, w):
        conns.append(w)
    srv = await asyncio.start_server(handler, "127.0.0.1", 0)
    client = EByteNmea2000Gateway("127.0.0.1", srv.sockets[0].getsockname()[1])
    gate = asyncio.Event()
    got = 0
    async def on_msg(m):
        nonlocal got
        if not gate.is_set():
            await gate.wait()            # e.g. the consumer waits for its database / broker to come back
        got += 1
    client.set_receive_callback(on_msg)
    await client.connect()
    await asyncio.sleep(0.05)
    for _ in range(N // 1000):
        conns[0].write(FRAME * 1000)
        await conns[0].drain()
    while client.queue.qsize() < N - 1:
        await asyncio.sleep(0.01)
    turns = 0
    async def heartbeat():
        nonlocal turns
        while True:
            await asyncio.sleep(0)
            turns += 1
    hb = asyncio.create_task(heartbeat())
    await asyncio.sleep(0)
    turns = 0
    gate.set()
    while got < N:
        await asyncio.sleep(0)
    print(f"{N} frames delivered; the heartbeat task got {turns} turns meanwhile")
    hb.cancel()
    await client.close()
    srv.close()
    return 1 if turns < N // 100 else 0
sys.exit(asyncio.run(main()))
