"""close() returns, then a connect() that was already in flight starts new background tasks.

usage: /venv/bin/python existing_defect_repro1.py <path-to-checkout>

Session shape (all through the public API):
  * YachtDevicesNmea2000Gateway(build_network_map=True)  (=> network-map seeding is on)
  * the status callback is slow for DISCONNECTED (it awaits 0.3 s, e.g. a notification to a UI)
  * the gateway sends one message and then drops the link
  * the application calls connect() itself when it learns about the lost link (a watchdog task)
  * the receive callback of the message that was still queued calls close() right after the new link
    has been reported CONNECTED.
connect() is then inside its `await asyncio.sleep(0.01)` (it has cancelled the receive task of the old link,
which was still busy in the slow status callback).  close() runs in the queue consumer task, so it has nothing
to wait for and returns at once.  10 ms later connect() resumes and creates a new receive task and a new
network-map seeding task: the seeding task lives for 6 more seconds and calls send() three times.
"""
import asyncio
import sys

sys.path.insert(0, sys.argv[1] if len(sys.argv) > 1 else ".")

from nmea2000.ioclient import YachtDevicesNmea2000Gateway, State  # noqa: E402

LINE = b"00:01:54.430 R 18EEFF10 01 02 03 04 00 82 32 C0\r\n"   # an ISO address claim (the network map lets it through)


async def main():
    accepted = []

    async def handle(reader, writer):
        accepted.append(writer)
        if len(accepted) == 1:
            writer.write(LINE)
            await writer.drain()
            await asyncio.sleep(0.05)
            writer.close()           # the gateway drops the first link
        else:
            await reader.read()      # keep the second link until the client shuts it

    server = await asyncio.start_server(handle, "127.0.0.1", 0)
    port = server.sockets[0].getsockname()[1]

    client = YachtDevicesNmea2000Gateway("127.0.0.1", port, build_network_map=True)
    states = []
    lost = asyncio.Event()
    reconnected = asyncio.Event()
    close_returned = asyncio.Event()

    async def on_status(state):
        states.append(state)
        if state == State.DISCONNECTED:
            lost.set()
            await asyncio.sleep(0.3)          # slow status callback
        elif state == State.CONNECTED and len(accepted) >= 1 and lost.is_set():
            reconnected.set()

    async def on_message(msg):
        await reconnected.wait()              # the message is handled late (a slow consumer)
        await asyncio.sleep(0.002)            # ... and close() comes one or more loop steps after that
        await client.close()
        close_returned.set()

    client.set_status_callback(on_status)
    client.set_receive_callback(on_message)

    await client.connect()
    await lost.wait()
    await client.connect()                    # the application's own reconnect
    await asyncio.wait_for(close_returned.wait(), 5)
    assert client.state == State.CLOSED

    await asyncio.sleep(0.3)                  # far longer than any "allow cancellation to propagate" pause
    mine = {asyncio.current_task()}
    leftovers = [t for t in asyncio.all_tasks() if t not in mine and not t.done()
                 and "ioclient" in getattr(t.get_coro(), "cr_code", type("x", (), {"co_filename": ""})).co_filename]
    print("status trace:", [s.name for s in states])
    for t in leftovers:
        print("still pending 0.3 s after close() returned:", t.get_coro().__qualname__)
    server.close()
    bad = bool(leftovers)
    for t in leftovers:
        t.cancel()
    print("VIOLATION" if bad else "ok")
    return 1 if bad else 0


sys.exit(asyncio.run(main()))
