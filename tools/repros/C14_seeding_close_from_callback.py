"""C14: close() called from the status callback that the network-map seeding task runs
leaves that task alive (sleeping and calling send()) for up to 4 s after close() returned.

usage: python repro1.py <checkout>      exit 1 = defect shown, 0 = not shown
"""
import asyncio, logging, sys
sys.path.insert(0, sys.argv[1] if len(sys.argv) > 1 else ".")
import nmea2000.ioclient as io
from nmea2000.ioclient import EByteNmea2000Gateway, State

logging.disable(logging.CRITICAL)


class FakeWriter:
    """A link whose writes fail (the gateway went away): drain() raises."""
    def __init__(self, reader):
        self.reader, self.closed, self.written, self.writes_after_close = reader, False, [], 0
    def get_extra_info(self, key, default=None):
        return default
    def write(self, data):
        if self.closed:
            self.writes_after_close += 1
        self.written.append(bytes(data))
    async def drain(self):
        raise ConnectionResetError("write failed")
    def close(self):
        if not self.closed:
            self.closed = True
            asyncio.get_running_loop().call_soon(self.reader.feed_eof)


async def main():
    links = []
    async def open_connection(host, port, **kw):
        r = asyncio.StreamReader()
        w = FakeWriter(r)
        links.append(w)
        return r, w
    io.asyncio.open_connection = open_connection

    client = EByteNmea2000Gateway("gateway", 1, build_network_map=True)   # seeding enabled
    seen = []
    result = {}

    async def on_status(state):
        seen.append((state, asyncio.current_task().get_coro().__qualname__))
        if state == State.DISCONNECTED:
            # a common reaction: give up on this client for good
            await client.close()
            me = asyncio.current_task()
            result["pending_at_return"] = [t.get_coro().__qualname__ for t in asyncio.all_tasks()
                                           if not t.done() and t.get_coro().__qualname__.startswith("AsyncIOClient.")]
            result["closed_in"] = me.get_coro().__qualname__

    client.set_status_callback(on_status)
    await client.connect()
    # the seeding task sends its first request 2 s after the connect; that write fails -> DISCONNECTED is
    # reported from inside the seeding task -> the callback closes the client
    await asyncio.sleep(2.3)
    if "closed_in" not in result:
        print("scenario did not run: close() was never called", seen)
        return 0
    alive = [t.get_coro().__qualname__ for t in asyncio.all_tasks()
             if not t.done() and t.get_coro().__qualname__.startswith("AsyncIOClient.")]
    print("status trace:", [(s.name, task) for s, task in seen])
    print("close() was called in task:", result["closed_in"])
    print("client tasks pending 0.3 s after close() returned:", alive)
    await asyncio.sleep(4.2)
    alive_late = [t.get_coro().__qualname__ for t in asyncio.all_tasks()
                  if not t.done() and t.get_coro().__qualname__.startswith("AsyncIOClient.")]
    print("client tasks pending 4.5 s after close() returned:", alive_late,
          "| send() calls that reached the shut link after close():", links[0].writes_after_close)
    if alive:
        print("DEFECT: state is", client.state.name, "and close() has returned, but the seeding task is still running "
              "(C14: 'after close() returns ... the client's background tasks finish')")
        return 1
    return 0


sys.exit(asyncio.run(main()))
