"""repro3: the reconnect task stops although nobody reads from the link (dd85ad2 promised the contrary).  Its exit
test 'CONNECTED and self._receive_task alive' is also true while ANOTHER connect() holds the lock, has reported
CONNECTED and has not yet replaced the OLD receive task.  Here the old EByte receive task is alive because it sits in
its 30 s 'Sorry,Limited' sleep; a send fails (DISCONNECTED, reconnect task started); the application calls
connect() with a timeout, the status callback for CONNECTED is slow, the reconnect task ticks meanwhile and returns;
the application's connect() is then cancelled by its timeout.  Result: CONNECTED, no reader, no reconnect task.
usage: python repro3.py <checkout>   exit 1 = defect shown"""
import asyncio, sys, logging
sys.path.insert(0, sys.argv[1] if len(sys.argv) > 1 else ".")
logging.disable(logging.CRITICAL)
from nmea2000.ioclient import EByteNmea2000Gateway, State
from nmea2000.message import NMEA2000Message
from nmea2000.encoder import NMEA2000Encoder

class VLoop(asyncio.SelectorEventLoop):
    def __init__(self):
        super().__init__(); self._vt = 1000.0
        sel = self._selector; orig = sel.select
        def select(timeout=None):
            if timeout and timeout > 0: self._vt += timeout
            return orig(0)
        sel.select = select
    def time(self): return self._vt

class W:
    def __init__(self, reader): self.reader = reader; self.closed = False
    def get_extra_info(self, *a): return None
    def write(self, d):
        if self.closed: raise ConnectionResetError()
    async def drain(self): pass
    def close(self):
        if not self.closed:
            self.closed = True
            asyncio.get_running_loop().call_soon(lambda: self.reader.at_eof() or self.reader.feed_eof())

links = []
async def open_connection(host, port, **kw):
    r = asyncio.StreamReader(); w = W(r); links.append(w); return r, w
asyncio.open_connection = open_connection

def tasks(name):
    return [t for t in asyncio.all_tasks() if not t.done() and t.get_coro().__name__ == name]

async def main():
    js = '{"PGN":59904,"id":"isoRequest","description":"ISO Request","fields":[{"id":"pgn","name":"PGN","description":null,"unit_of_measurement":null,"value":60928,"raw_value":60928,"physical_quantities":null,"type":[13],"part_of_primary_key":false}],"source":0,"destination":255,"priority":6,"timestamp":"2012-06-17T15:02:11","source_iso_name":null,"hash":null}'
    frame = NMEA2000Encoder().encode_ebyte(NMEA2000Message.from_json(js))[0]
    c = EByteNmea2000Gateway("127.0.0.1", 1); c.seed_network_map = False
    got = []; states = []
    async def rcb(m): got.append(m.PGN)
    async def scb(s):
        states.append(s.name)
        if s == State.CONNECTED and len(states) > 1: await asyncio.sleep(1.0)   # a slow application callback
    c.set_receive_callback(rcb); c.set_status_callback(scb)
    await c.connect(); await asyncio.sleep(0.1)
    links[0].reader.feed_data(b'Sorry,Limited')                  # the receive task sleeps 30 s
    await asyncio.sleep(1)
    links[0].closed = True                                       # the link breaks: the next write fails
    await c.send(NMEA2000Message.from_json(js))                  # -> DISCONNECTED, reconnect task started
    await asyncio.sleep(0.1)
    try:
        await asyncio.wait_for(c.connect(), 0.7)                 # cancelled inside the slow CONNECTED callback
    except asyncio.TimeoutError:
        pass
    await asyncio.sleep(60)                                      # far longer than any back-off
    if not links[-1].closed: links[-1].reader.feed_data(frame)
    await asyncio.sleep(1)
    rt, rc = len(tasks("_receive_loop")), len(tasks("_reconnect"))
    bad = not got or rt != 1
    print("states", states, "state", c.state.name, "receive tasks", rt, "reconnect tasks", rc, "delivered", got)
    await c.close()
    if bad:
        print("DEFECT: 60 s after the fault the client says %s, %d receive loop, %d reconnect task, the frame sent by "
              "the gateway was delivered %d times" % (states[-2], rt, rc, len(got)))
        return 1
    print("ok"); return 0

loop = VLoop(); rcode = loop.run_until_complete(main()); loop.close(); sys.exit(rcode)
