#!/usr/bin/env python3
"""verify the seeded changes produced by the sub-agents against /repo's current HEAD and store them under /verif/seeded/"""
import json
import os
import shutil
import subprocess
import sys

SV = "/tmp/sv"
PY = "/venv/bin/python"


def sh(cmd, cwd=None, timeout=600, env=None):
    e = dict(os.environ)
    if env:
        e.update(env)
    p = subprocess.run(cmd, shell=True, cwd=cwd, stdout=subprocess.PIPE, stderr=subprocess.STDOUT, text=True, timeout=timeout, env=e)
    return p.returncode, p.stdout


def main():
    props = sys.argv[1:] or [f"C{i:02d}" for i in range(1, 21)]
    sh(f"git -C /repo worktree remove --force {SV}")
    rc, out = sh(f"git -C /repo worktree add -q --detach {SV} HEAD")
    assert rc == 0, out
    head = sh("git -C /repo rev-parse --short HEAD")[1].strip()
    for pid in props:
        for k in (1, 2):
            src = f"/tmp/seed/{pid}-out"
            patch, demo, notes = f"{src}/patch{k}.diff", f"{src}/demo{k}.py", f"{src}/notes{k}.md"
            if not (os.path.exists(patch) and os.path.exists(demo)):
                print(pid, k, "MISSING")
                continue
            sh("git checkout -q -- . && git clean -fdq", cwd=SV)
            res = {"property": pid, "repo_head": head}
            rc, out = sh(f"git apply --check {patch}", cwd=SV)
            if rc != 0:
                rc, out = sh(f"git apply --3way {patch}", cwd=SV)
                sh("git checkout -q -- . ; git reset -q", cwd=SV)
                res["applies"] = False
                print(pid, k, "DOES NOT APPLY on current HEAD")
                continue
            shutil.copy(demo, f"{SV}/_demo.py")
            env = {"PYTHONPATH": SV}
            rc0, o0 = sh(f"{PY} _demo.py", cwd=SV, env=env, timeout=120)
            sh(f"git apply {patch}", cwd=SV)
            rct, ot = sh(f"{PY} -m pytest -q -p no:cacheprovider tests", cwd=SV, timeout=600)
            if "71 passed" not in ot:   # the TCP tests bind a fixed port: retry once
                rct, ot = sh(f"{PY} -m pytest -q -p no:cacheprovider tests", cwd=SV, timeout=600)
            rc1, o1 = sh(f"{PY} _demo.py", cwd=SV, env=env, timeout=120)
            ok = rc0 == 0 and "71 passed" in ot and rc1 != 0
            res.update({"applies": True, "demo_rc_clean": rc0, "tests_with_change": ot.strip().split("\n")[-1], "demo_rc_with_change": rc1,
                        "demo_output_with_change": o1[-600:], "confirmed": ok,
                        "ran": [f"git apply patch.diff (on {head})", "pytest tests (71 passed)", "demo.py exits 0 without and non-zero with the change"]})
            print(pid, k, "CONFIRMED" if ok else f"NOT CONFIRMED clean_rc={rc0} tests={res['tests_with_change']} rc_with={rc1}")
            if ok:
                dst = f"/verif/seeded/{pid}-{k}"
                os.makedirs(dst, exist_ok=True)
                shutil.copy(patch, f"{dst}/patch.diff")
                shutil.copy(demo, f"{dst}/demo.py")
                res["needs"] = open(notes).read() if os.path.exists(notes) else ""
                json.dump(res, open(f"{dst}/meta.json", "w"), indent=1)
    sh("git checkout -q -- . && git clean -fdq", cwd=SV)
    sh(f"git -C /repo worktree remove --force {SV}")


if __name__ == "__main__":
    main()
