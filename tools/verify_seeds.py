#!/usr/bin/env python3
"""re-verify every stored seeded change (/verif/seeded/<id>/) against /repo's current HEAD: the patch applies, the 71 tests pass
with it, the demonstration exits 0 without and non-zero with the change; updates meta.json"""
import json
import os
import shutil
import subprocess
import sys

SV = f"/tmp/sv_{os.getpid()}"      # one scratch worktree per run: two runs at a time must not share it
PY = "/venv/bin/python"


def sh(cmd, cwd=None, timeout=600, env=None):
    e = dict(os.environ)
    if env:
        e.update(env)
    p = subprocess.run(cmd, shell=True, cwd=cwd, stdout=subprocess.PIPE, stderr=subprocess.STDOUT, text=True, timeout=timeout, env=e)
    return p.returncode, p.stdout


def main():
    only = sys.argv[1:]
    sh(f"git -C /repo worktree remove --force {SV}")
    rc, out = sh(f"git -C /repo worktree add -q --detach {SV} HEAD")
    assert rc == 0, out
    head = sh("git -C /repo rev-parse --short HEAD")[1].strip()
    bad = 0
    for name in sorted(os.listdir("/verif/seeded")):
        d = f"/verif/seeded/{name}"
        if not os.path.isdir(d) or name.startswith("_") or (only and name not in only):
            continue
        sh("git checkout -q -- . && git clean -fdq", cwd=SV)
        meta = json.load(open(f"{d}/meta.json"))
        rc, out = sh(f"git apply --check {d}/patch.diff", cwd=SV)
        if rc != 0:
            print(name, "DOES NOT APPLY on", head)
            meta.update({"applies": False, "confirmed": False, "repo_head": head})
            json.dump(meta, open(f"{d}/meta.json", "w"), indent=1)
            bad += 1
            continue
        shutil.copy(f"{d}/demo.py", f"{SV}/_demo.py")
        env = {"PYTHONPATH": SV}
        rc0, o0 = sh(f"{PY} _demo.py {SV}", cwd=SV, env=env, timeout=180)
        sh(f"git apply {d}/patch.diff", cwd=SV)
        rct, ot = sh(f"{PY} -m pytest -q -p no:cacheprovider tests", cwd=SV)
        if "71 passed" not in ot:
            rct, ot = sh(f"{PY} -m pytest -q -p no:cacheprovider tests", cwd=SV)
        rc1, o1 = sh(f"{PY} _demo.py {SV}", cwd=SV, env=env, timeout=180)
        ok = rc0 == 0 and "71 passed" in ot and rc1 != 0
        meta.update({"applies": True, "repo_head": head, "demo_rc_clean": rc0, "tests_with_change": ot.strip().split("\n")[-1], "demo_rc_with_change": rc1, "confirmed": ok})
        json.dump(meta, open(f"{d}/meta.json", "w"), indent=1)
        print(name, "CONFIRMED" if ok else f"NOT CONFIRMED clean_rc={rc0} tests={meta['tests_with_change']} rc_with={rc1}")
        bad += not ok
    sh("git checkout -q -- . && git clean -fdq", cwd=SV)
    sh(f"git -C /repo worktree remove --force {SV}")
    # (the summary line is what to look at: filtering the per-seed lines by 'CONFIRMED' also hides 'NOT CONFIRMED')
    print(f"SUMMARY: {bad} seed(s) need attention" if bad else "SUMMARY: every seed applies, passes the tests, and its demonstration exits 0 on the clean tree and non-zero with the change")
    return 1 if bad else 0


if __name__ == "__main__":
    sys.exit(main())
