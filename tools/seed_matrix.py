#!/usr/bin/env python3
"""run every stored seeded change against the check of its own property (and optionally others); writes seeded/MATRIX.json"""
import json
import os
import re
import subprocess
import sys

V = "/verif"
out = {}
names = sorted(n for n in os.listdir(f"{V}/seeded") if os.path.isdir(f"{V}/seeded/{n}") and not n.startswith("_"))
only = sys.argv[1:]
for n in names:
    if only and n not in only:
        continue
    p = subprocess.run(f"{V}/tools/seedtest.sh {n}", shell=True, stdout=subprocess.PIPE, stderr=subprocess.STDOUT, text=True, timeout=1800)
    viol = re.findall(r"VIOLATION property=(\S+) replay=(\S+)( no-failing-input-found)?", p.stdout)
    summ = re.findall(r"^(C\d+) tier=\S+ seed=\d+: (\d+)/(\d+) obligations.*?(\d+) violations", p.stdout, flags=re.M)
    keys = []
    for prop, rp, nf in viol:
        try:
            keys.append(json.load(open(rp))["key"])
        except Exception:
            pass
    out[n] = {"detected": bool(viol), "with_failing_input": any(not nf for _, _, nf in viol), "violation_keys": keys[:3],
              "obligations": summ[0][1] + "/" + summ[0][2] if summ else None}
    print(n, out[n], flush=True)
    subprocess.run(f"find {V}/replays -name '*.json' -delete", shell=True)
json.dump(out, open(f"{V}/seeded/MATRIX.json", "w"), indent=1, sort_keys=True)
