#!/usr/bin/env python3
"""run every stored seeded change against the check of its own property (plus any extra checks given as
`--also C01,C02`); writes seeded/MATRIX.json.  Seeds run four at a time, each in its own scratch copies."""
import json
import os
import re
import subprocess
import sys
from concurrent.futures import ThreadPoolExecutor

V = "/verif"
args = sys.argv[1:]
also = []
if "--also" in args:
    i = args.index("--also")
    also = args[i + 1].split(",")
    del args[i:i + 2]
names = sorted(n for n in os.listdir(f"{V}/seeded") if os.path.isdir(f"{V}/seeded/{n}") and not n.startswith("_"))
names = [n for n in names if not args or n in args]


def one(n):
    own = n.split("-")[0]
    checks = [own] + [c for c in also if c != own]
    p = subprocess.run([f"{V}/tools/seedtest.sh", n] + checks, stdout=subprocess.PIPE, stderr=subprocess.STDOUT, text=True, timeout=3600)
    res = {}
    for block in p.stdout.split("== seeded ")[1:]:
        chk = block.split("vs check ")[1].split()[0]
        viol = re.findall(r"VIOLATION property=(\S+) replay=(\S+)( no-failing-input-found)?", block)
        summ = re.findall(r"^C\d+ tier=\S+ seed=\d+: (\d+)/(\d+) obligations", block, flags=re.M)
        keys = re.findall(r"^REPLAYKEY (.*)$", block, flags=re.M)
        res[chk] = {"detected": bool(viol), "with_failing_input": any(not nf for _, _, nf in viol), "violation_keys": keys[:3],
                    "obligations": "/".join(summ[0]) if summ else None}
    print(n, json.dumps(res), flush=True)
    return n, res


with ThreadPoolExecutor(8) as ex:
    out = dict(ex.map(one, names))
path = f"{V}/seeded/MATRIX.json"
old = json.load(open(path)) if os.path.exists(path) else {}
for n, res in out.items():
    old.setdefault(n, {}).update(res)       # partial runs update the rows they re-tested
json.dump(old, open(path, "w"), indent=1, sort_keys=True)
