#!/usr/bin/env python3
"""import the output of a seeding sub-agent (OUTDIR/changeK.diff, changeK_demo.py, changeK.txt) as /verif/seeded/<prop>-<n>;
usage: import_seeds.py <outdir> <prop>   (numbers continue after the existing ones); verify with verify_seeds.py afterwards"""
import json
import os
import shutil
import sys

out, prop = sys.argv[1], sys.argv[2]
ROUND = int(sys.argv[3]) if len(sys.argv) > 3 else 2
have = [int(n.split("-")[1]) for n in os.listdir("/verif/seeded") if n.startswith(prop + "-")]
n = max(have, default=0)
for k in (1, 2, 3):
    if not os.path.exists(f"{out}/change{k}.diff"):
        continue
    n += 1
    d = f"/verif/seeded/{prop}-{n}"
    os.makedirs(d)
    shutil.copy(f"{out}/change{k}.diff", f"{d}/patch.diff")
    shutil.copy(f"{out}/change{k}_demo.py", f"{d}/demo.py")
    txt = open(f"{out}/change{k}.txt").read() if os.path.exists(f"{out}/change{k}.txt") else ""
    json.dump({"property": prop, "round": ROUND, "needs": txt}, open(f"{d}/meta.json", "w"), indent=1)
    print(d)
