#!/usr/bin/env python3
"""T1: translate `nmea2000/pgns.py` (every generated function and dictionary) and `canboat.json`
into Lean data tables (types in lean/N2k/Model/Tables.lean).

The recogniser works on Python's `ast`: every statement of every function must match one of the
shapes listed in DESIGN.md 2.7 (compared on `ast.unparse` text for the fixed parts and on the AST
for literals and strings).  Anything else makes the whole function an explicit
`unrecognised "<reason>"` node — never a guess — and is reported as a translation problem.

Chunking: definitions are emitted group by group (all definitions of one PGN together, groups in
order of first appearance, which is the order the generator emits code in); both the database and
the code tables are cut at the same group boundaries into NCHUNK files so that Lean elaborates and
kernel-checks them in parallel.
"""
import ast
import json
import re
import sys
from decimal import Decimal

NCHUNK = 16


# ----------------------------------------------------------------------------- Lean rendering
def lstr(s):
    if s is None:
        return "none"
    out = ['"']
    for ch in s:
        o = ord(ch)
        if ch == '"':
            out.append('\\"')
        elif ch == '\\':
            out.append('\\\\')
        elif ch == '\n':
            out.append('\\n')
        elif ch == '\r':
            out.append('\\r')
        elif ch == '\t':
            out.append('\\t')
        elif o < 32 or o == 127:
            out.append('\\x%02x' % o)
        else:
            out.append(ch)
    out.append('"')
    return "".join(out)


def lopt_str(s):
    return "none" if s is None else f"(some {lstr(s)})"


def lnat_opt(n):
    return "none" if n is None else f"(some {n})"


def lbool(b):
    return "true" if b else "false"


def lint(z):
    return f"({z})" if z < 0 else str(z)


def lit_of_number(v, text=None):
    """exact decimal (mantissa, exponent, isFloat) of a Python int/float literal"""
    if isinstance(v, bool):
        raise ValueError("bool literal")
    if isinstance(v, int):
        return (v, 0, False)
    d = Decimal(text if text is not None else repr(v))
    if not d.is_finite():
        raise ValueError("non-finite literal")
    sign, digits, exp = d.as_tuple()
    m = int("".join(map(str, digits)) or "0")
    while m != 0 and m % 10 == 0:
        m //= 10
        exp += 1
    if m == 0:
        exp = 0
    return (-m if sign else m, exp, True)


def llit(l):
    m, e, f = l
    return f"⟨{lint(m)}, {lint(e)}, {lbool(f)}⟩"


def llit_opt(l):
    return "none" if l is None else f"(some {llit(l)})"


# ----------------------------------------------------------------------------- database
def db_field(f):
    def num(k):
        if k not in f:
            return None
        return lit_of_number(f[k])
    return ("{ order := %d, id := %s, name := %s, desc := %s, ftype := %s, bitLength := %s, bitOffset := %s, signed := %s, "
            "resolution := %s, rangeMin := %s, rangeMax := %s, offset := %s, unit := %s, pq := %s, enum := %s, bitEnum := %s, "
            "indirectEnum := %s, indirectOrder := %s, matchVal := %s, pk := %s, bitLengthField := %s }") % (
        f["Order"], lstr(f["Id"]), lstr(f["Name"]), lopt_str(f.get("Description")), lstr(f["FieldType"]),
        lnat_opt(f.get("BitLength")), lnat_opt(f.get("BitOffset")), lbool(bool(f.get("Signed", False))),
        llit_opt(num("Resolution")), llit_opt(num("RangeMin")), llit_opt(num("RangeMax")), llit_opt(num("Offset")),
        lopt_str(f.get("Unit")), lopt_str(f.get("PhysicalQuantity")), lopt_str(f.get("LookupEnumeration")),
        lopt_str(f.get("LookupBitEnumeration")), lopt_str(f.get("LookupIndirectEnumeration")),
        lnat_opt(f.get("LookupIndirectEnumerationFieldOrder")), lnat_opt(f.get("Match")),
        lbool(bool(f.get("PartOfPrimaryKey", False))), lnat_opt(f.get("BitLengthField")))


def db_pgn(p):
    fields = ",\n      ".join(db_field(f) for f in p["Fields"])
    return ("{ pgn := %d, id := %s, desc := %s, ptype := %s, length := %s, fallback := %s, interval := %s,\n    fields := [\n      %s] }") % (
        p["PGN"], lstr(p["Id"]), lstr(p["Description"]), lstr(p["Type"]), lnat_opt(p.get("Length")),
        lbool(bool(p.get("Fallback", False))), lnat_opt(p.get("TransmissionInterval")), fields)


def group_db(pgns):
    groups = {}
    for p in pgns:
        groups.setdefault(p["PGN"], []).append(p)
    return list(groups.items())


# ----------------------------------------------------------------------------- code recogniser
class Unrec(Exception):
    pass


class Source:
    """source text with fast single-line segment extraction (ast.get_source_segment is O(file) per call)"""
    def __init__(self, text):
        self.text = text
        self.lines = text.split("\n")

    def segment(self, n):
        if n.lineno != n.end_lineno:
            raise Unrec("multi-line literal")
        line = self.lines[n.lineno - 1].encode("utf-8")
        return line[n.col_offset:n.end_col_offset].decode("utf-8")


def up(n):
    return ast.unparse(n)


def const_str(n, allow_none=False):
    if isinstance(n, ast.Constant) and isinstance(n.value, str):
        return n.value
    if allow_none and isinstance(n, ast.Constant) and n.value is None:
        return None
    raise Unrec("string literal expected: " + up(n))


def const_nat(n):
    if isinstance(n, ast.Constant) and isinstance(n.value, int) and not isinstance(n.value, bool) and n.value >= 0:
        return n.value
    raise Unrec("natural literal expected: " + up(n))


def const_bool(n):
    if isinstance(n, ast.Constant) and isinstance(n.value, bool):
        return n.value
    raise Unrec("bool literal expected: " + up(n))


def const_lit(n, src):
    neg = False
    if isinstance(n, ast.UnaryOp) and isinstance(n.op, ast.USub):
        neg = True
        n = n.operand
    if isinstance(n, ast.Constant) and isinstance(n.value, (int, float)) and not isinstance(n.value, bool):
        text = src.segment(n) if isinstance(n.value, float) else None
        m, e, f = lit_of_number(n.value, text)
        return (-m if neg else m, e, f)
    raise Unrec("numeric literal expected: " + up(n))


def is_call(n, fname, nargs=None):
    return (isinstance(n, ast.Call) and isinstance(n.func, ast.Name) and n.func.id == fname and not n.keywords
            and (nargs is None or len(n.args) == nargs))


def std_args(call):
    """first two args must be `_data_raw_, running_bit_offset`"""
    if len(call.args) < 2 or up(call.args[0]) != "_data_raw_" or up(call.args[1]) != "running_bit_offset":
        raise Unrec("decoder call not on (_data_raw_, running_bit_offset): " + up(call))


def targets(st):
    if not isinstance(st, ast.Assign):
        raise Unrec("assignment expected: " + up(st))
    names = []
    for t in st.targets:
        if not isinstance(t, ast.Name):
            raise Unrec("simple target expected: " + up(st))
        names.append(t.id)
    return names


class DecRec:
    def __init__(self, node, src):
        self.node = node
        self.src = src

    def header(self, st):
        if not (isinstance(st, ast.Assign) and up(st.targets[0]) == "nmea2000Message" and is_call_kw(st.value, "NMEA2000Message")):
            raise Unrec("message constructor expected: " + up(st))
        kw = {k.arg: k.value for k in st.value.keywords}
        if st.value.args or set(kw) - {"PGN", "id", "description", "ttl"} or not {"PGN", "id", "description"} <= set(kw):
            raise Unrec("message constructor arguments: " + up(st))
        ttl = None
        if "ttl" in kw:
            t = kw["ttl"]
            if not (isinstance(t, ast.Call) and up(t.func) == "timedelta" and not t.args and len(t.keywords) == 1 and t.keywords[0].arg == "milliseconds"):
                raise Unrec("ttl: " + up(t))
            ttl = const_nat(t.keywords[0].value)
        return const_nat(kw["PGN"]), const_str(kw["id"]), const_str(kw["description"]), ttl

    def run(self):
        body = list(self.node.body)
        if body and isinstance(body[0], ast.Expr) and isinstance(body[0].value, ast.Constant) and isinstance(body[0].value.value, str):
            body = body[1:]
        pgn, mid, desc, ttl = self.header(body[0])
        if up(body[1]) != "running_bit_offset = 0":
            raise Unrec("initial offset: " + up(body[1]))
        if up(body[-1]) != "return nmea2000Message":
            raise Unrec("final return: " + up(body[-1]))
        sts = body[2:-1]
        i = 0
        stmts = []
        var_field = {}     # python variable -> index of the latest field that assigned it
        raws = []          # per emitted field: name of its raw variable (or None)
        while i < len(sts):
            off = None
            st = sts[i]
            if isinstance(st, ast.Assign) and up(st.targets[0]) == "running_bit_offset" and len(st.targets) == 1:
                off = const_nat(st.value)
                i += 1
                st = sts[i]
            op, v, vraw, i, lau = self.op(sts, i, var_field)
            # append
            st = sts[i]
            if not (isinstance(st, ast.Expr) and isinstance(st.value, ast.Call) and up(st.value.func) == "nmea2000Message.fields.append"
                    and len(st.value.args) == 1 and is_call(st.value.args[0], "NMEA2000Field", 9)):
                raise Unrec("fields.append(NMEA2000Field(…9 args…)) expected: " + up(st)[:200])
            a = st.value.args[0].args
            if v is not None and (up(a[4]) != v or up(a[5]) != vraw):
                raise Unrec(f"field constructor uses {up(a[4])}/{up(a[5])}, expected {v}/{vraw}")
            if v is None and not (isinstance(a[4], ast.Name) and isinstance(a[5], ast.Name)):
                raise Unrec("field constructor value arguments: " + up(st)[:200])
            pq = None
            if not (isinstance(a[6], ast.Constant) and a[6].value is None):
                m = re.fullmatch(r"PhysicalQuantities\.(\w+)", up(a[6]))
                if not m:
                    raise Unrec("physical quantity: " + up(a[6]))
                pq = m.group(1)
            m = re.fullmatch(r"FieldTypes\.(\w+)", up(a[7]))
            if not m:
                raise Unrec("field type: " + up(a[7]))
            meta = (const_str(a[0]), const_str(a[1]), const_str(a[2], True), const_str(a[3], True), pq, m.group(1), const_bool(a[8]))
            i += 1
            idx = len(stmts)
            if v is not None:
                var_field[v] = idx
            raws.append(vraw)
            adv = None
            if i < len(sts) and isinstance(sts[i], ast.AugAssign) and up(sts[i].target) == "running_bit_offset" and isinstance(sts[i].op, ast.Add):
                adv = const_nat(sts[i].value)
                i += 1
            patch = None
            if i < len(sts) and isinstance(sts[i], ast.Assign) and up(sts[i].targets[0]) == "combined_key":
                m = re.fullmatch(r"combined_key = str\((\w+)\) \+ '_' \+ str\((\w+)\)", up(sts[i]))
                if not m or m.group(1) != vraw:
                    raise Unrec("combined key: " + up(sts[i]))
                braw = m.group(2)
                m2 = re.fullmatch(r"(\w+) = master_indirect_lookup_dict\['(\w+)'\]\.get\(combined_key, None\)", up(sts[i + 1]))
                m3 = re.fullmatch(r"nmea2000Message\.fields\[(\d+)\]\.value = (\w+)", up(sts[i + 2]))
                if not m2 or not m3 or m2.group(1) != m3.group(2) or m2.group(1) + "_raw" != braw:
                    raise Unrec("indirect patch: " + up(sts[i + 1]) + " ; " + up(sts[i + 2]))
                k = int(m3.group(1))
                if k >= len(raws) or raws[k] != braw:
                    raise Unrec(f"indirect patch targets field {k} whose raw variable is not {braw}")
                patch = (m2.group(2), k)
                i += 3
            stmts.append((off, op, meta, adv, patch))
        return pgn, mid, desc, ttl, stmts

    def op(self, sts, i, var_field):
        """returns (op tuple, value var, raw var, next index, is_lau)"""
        st = sts[i]
        if isinstance(st, ast.Raise):
            m = re.fullmatch(r"raise Exception\('PGN (\d+) FieldType \((\w+)\) not supported'\)", up(st))
            if not m:
                raise Unrec("raise: " + up(st))
            return ("unsupported", m.group(2)), None, None, i + 1, False
        if isinstance(st, ast.Assert):
            m = re.fullmatch(r"assert isinstance\((\w+), int\)", up(st))
            if not m:
                raise Unrec("assert: " + up(st))
            lenvar = m.group(1)
            st2 = sts[i + 1]
            t = targets(st2)
            c = st2.value
            if not (len(t) == 2 and t[1] == t[0] + "_raw" and is_call(c, "int_to_bytes", 1) and is_call(c.args[0], "decode_int", 3)):
                raise Unrec("variable-length binary: " + up(st2))
            std_args(c.args[0])
            if up(c.args[0].args[2]) != lenvar or lenvar not in var_field:
                raise Unrec("variable-length binary length variable: " + up(st2))
            return ("binaryVar", var_field[lenvar]), t[0], t[1], i + 2, False
        if isinstance(st, ast.Assign) and isinstance(st.targets[0], ast.Tuple):
            tt = st.targets[0].elts
            if not (len(st.targets) == 1 and len(tt) == 2 and up(tt[1]) == "bits_to_skip" and is_call(st.value, "decode_string_lau", 2)):
                raise Unrec("tuple assignment: " + up(st))
            std_args(st.value)
            vraw = up(tt[0])
            st2 = sts[i + 1]
            if not vraw.endswith("_raw") or up(st2) != f"{vraw[:-4]} = {vraw}":
                raise Unrec("LAU value copy: " + up(st2))
            if up(sts[i + 2]) != "running_bit_offset += bits_to_skip":
                raise Unrec("LAU advance: " + up(sts[i + 2]))
            return ("stringLau",), vraw[:-4], vraw, i + 3, True
        t = targets(st)
        c = st.value
        if len(t) == 2:
            v, vraw = t
            if vraw != v + "_raw":
                raise Unrec("value/raw names: " + up(st))
            if is_call(c, "decode_number", 7) or is_call(c, "decode_number", 8):
                std_args(c)
                ofs = const_lit(c.args[7], self.src) if len(c.args) == 8 else (0, 0, False)
                return (("number", const_nat(c.args[2]), const_bool(c.args[3]), const_lit(c.args[4], self.src), const_lit(c.args[5], self.src),
                         const_lit(c.args[6], self.src), "id", ofs), v, vraw, i + 1, False)
            if is_call(c, "decode_int", 3):
                std_args(c)
                return ("rawInt", const_nat(c.args[2])), v, vraw, i + 1, False
            if is_call(c, "int_to_bytes", 1) and is_call(c.args[0], "decode_int", 3):
                std_args(c.args[0])
                return ("binary", const_nat(c.args[0].args[2])), v, vraw, i + 1, False
            if is_call(c, "decode_string_fix", 3):
                std_args(c)
                return ("stringFix", const_nat(c.args[2])), v, vraw, i + 1, False
            if is_call(c, "decode_string_lz", 2):
                std_args(c)
                return ("stringLz",), v, vraw, i + 1, False
            if is_call(c, "decode_float", 5):
                std_args(c)
                return ("float", const_nat(c.args[2]), const_lit(c.args[3], self.src), const_lit(c.args[4], self.src)), v, vraw, i + 1, False
            raise Unrec("double assignment: " + up(st)[:200])
        if len(t) == 1 and t[0].endswith("_raw"):
            vraw = t[0]
            v = vraw[:-4]
            st2 = sts[i + 1]
            t2 = targets(st2)
            if t2 != [v]:
                raise Unrec("value assignment after raw: " + up(st2)[:200])
            if is_call(c, "decode_number", 7):
                std_args(c)
                post = None
                for fn, p in (("decode_time", "time"), ("decode_date", "date")):
                    if is_call(st2.value, fn, 1) and up(st2.value.args[0]) == vraw:
                        post = p
                if post is None:
                    raise Unrec("post-processing of number: " + up(st2))
                return (("number", const_nat(c.args[2]), const_bool(c.args[3]), const_lit(c.args[4], self.src), const_lit(c.args[5], self.src),
                         const_lit(c.args[6], self.src), post, (0, 0, False)), v, vraw, i + 2, False)
            if is_call(c, "decode_int", 3):
                std_args(c)
                ln = const_nat(c.args[2])
                m = re.fullmatch(r"master_dict\['(\w+)'\]\.get\(%s, None\)" % re.escape(vraw), up(st2.value))
                if m:
                    return ("lookup", ln, m.group(1)), v, vraw, i + 2, False
                m = re.fullmatch(r"decode_bit_lookup\(%s, master_flags_dict\['(\w+)'\]\)" % re.escape(vraw), up(st2.value))
                if m:
                    return ("bitLookup", ln, m.group(1)), v, vraw, i + 2, False
                if up(st2.value) == "'TEMP_VAL'":
                    return ("indirect", ln), v, vraw, i + 2, False
                raise Unrec("after decode_int: " + up(st2)[:200])
        raise Unrec("statement: " + up(st)[:200])


def is_call_kw(n, fname):
    return isinstance(n, ast.Call) and isinstance(n.func, ast.Name) and n.func.id == fname


def lean_op(op):
    k = op[0]
    if k == "number":
        return f".number {op[1]} {lbool(op[2])} {llit(op[3])} {llit(op[4])} {llit(op[5])} {llit(op[7])} .{op[6]}"
    if k in ("lookup", "bitLookup"):
        return f".{k} {op[1]} {lstr(op[2])}"
    if k in ("rawInt", "binary", "binaryVar", "stringFix", "indirect"):
        return f".{k} {op[1]}"
    if k in ("stringLz", "stringLau"):
        return f".{k}"
    if k == "float":
        return f".float {op[1]} {llit(op[2])} {llit(op[3])}"
    if k == "unsupported":
        return f".unsupported {lstr(op[1])}"
    return f".unrecognised {lstr(op[1])}"


def lean_meta(m):
    return f"⟨{lstr(m[0])}, {lstr(m[1])}, {lopt_str(m[2])}, {lopt_str(m[3])}, {lopt_str(m[4])}, {lstr(m[5])}, {lbool(m[6])}⟩"


def lean_decfn(name, rec):
    pgn, mid, desc, ttl, stmts = rec
    ss = ",\n      ".join(
        f"⟨{lnat_opt(off)}, {lean_op(op)}, {lean_meta(meta)}, {lnat_opt(adv)}, {'none' if patch is None else '(some ⟨%s, %d⟩)' % (lstr(patch[0]), patch[1])}⟩"
        for off, op, meta, adv, patch in stmts)
    return f"{{ name := {lstr(name)}, pgn := {pgn}, id := {lstr(mid)}, desc := {lstr(desc)}, ttlMs := {lnat_opt(ttl)},\n    stmts := [\n      {ss}] }}"


def lean_decfn_unrec(name, pgn, reason):
    return (f"{{ name := {lstr(name)}, pgn := {pgn}, id := \"\", desc := \"\", ttlMs := none,\n    stmts := [⟨none, .unrecognised {lstr(reason)}, "
            f"⟨\"\", \"\", none, none, none, \"\", false⟩, none, none⟩] }}")


# ---- dispatchers
def rec_disp(node):
    body = list(node.body)
    arms = []
    for st in body[:-1]:
        if not (isinstance(st, ast.If) and not st.orelse and len(st.body) == 1 and isinstance(st.body[0], ast.Return)):
            raise Unrec("dispatcher arm: " + up(st)[:200])
        m = re.fullmatch(r"return decode_pgn_(\w+)\(data_raw\)", up(st.body[0]))
        if not m:
            raise Unrec("dispatcher target: " + up(st.body[0]))
        test = st.test
        conds = []
        always = False
        if isinstance(test, ast.Constant) and test.value is True:
            always = True
        else:
            parts = test.values if isinstance(test, ast.BoolOp) and isinstance(test.op, ast.And) else [test]
            for c in parts:
                mm = re.fullmatch(r"data_raw >> (\d+) & (\d+) == (\d+)", up(c))
                if not mm:
                    raise Unrec("dispatcher condition: " + up(c))
                conds.append(tuple(int(x) for x in mm.groups()))
        arms.append((conds, always, m.group(1)))
    last = body[-1]
    if up(last) == "return None":
        fb = None
    else:
        m = re.fullmatch(r"return decode_pgn_(\w+)\(data_raw\)", up(last))
        if not m:
            raise Unrec("dispatcher fallback: " + up(last))
        fb = m.group(1)
    return arms, fb


def lean_disp(pgn, arms, fb):
    a = ",\n      ".join("⟨[%s], %s, %s⟩" % (", ".join(f"⟨{s}, {m}, {v}⟩" for s, m, v in conds), lbool(alw), lstr(t)) for conds, alw, t in arms)
    return f"{{ pgn := {pgn}, arms := [\n      {a}], fallback := {lopt_str(fb)} }}"


# ---- encoders
def rec_enc(node, src):
    body = list(node.body)
    if body and isinstance(body[0], ast.Expr) and isinstance(body[0].value, ast.Constant) and isinstance(body[0].value.value, str):
        body = body[1:]
    if up(body[0]) != "data_raw = 0":
        raise Unrec("encoder start: " + up(body[0]))
    ret = body[-1]
    m = re.fullmatch(r"return data_raw\.to_bytes\((\d+), byteorder='little'\)", up(ret))
    if m:
        ln = int(m.group(1))
    elif up(ret) == "return data_raw.to_bytes((data_raw.bit_length() + 7) // 8, byteorder='little')":
        ln = None
    else:
        raise Unrec("encoder return: " + up(ret))
    sts = body[1:-1]
    i = 0
    steps = []
    while i < len(sts):
        st = sts[i]
        if isinstance(st, ast.Raise):
            if not (isinstance(st.exc, ast.Call) and up(st.exc.func) == "Exception" and len(st.exc.args) == 1):
                raise Unrec("raise: " + up(st))
            txt = const_str(st.exc.args[0])
            m = re.fullmatch(r"PGN (\d+) not supporting encoding for now as (.*) is missing BitLength or BitOffset", txt, flags=re.S)
            if not m:
                raise Unrec("raise: " + up(st))
            steps.append(("noLayout", int(m.group(1)), m.group(2)))
            i += 1
            continue
        if not (isinstance(st, ast.Assign) and up(st.targets[0]) == "field" and isinstance(st.value, ast.Call)
                and up(st.value.func) == "nmea2000Message.get_field_by_id" and len(st.value.args) == 1):
            raise Unrec("get_field_by_id expected: " + up(st)[:200])
        fid = const_str(st.value.args[0])
        st = sts[i + 1]
        if not (isinstance(st, ast.If) and up(st.test) == "field is None" and not st.orelse and len(st.body) == 1 and isinstance(st.body[0], ast.Raise)
                and isinstance(st.body[0].exc, ast.Call) and len(st.body[0].exc.args) == 1):
            raise Unrec("missing-field guard: " + up(st)[:200])
        txt = const_str(st.body[0].exc.args[0])
        m = re.fullmatch(r"Cant encode this message, missing '(.*)'", txt, flags=re.S)
        if not m:
            raise Unrec("missing-field message: " + txt)
        fname = m.group(1)
        i += 2
        st = sts[i]
        u = up(st)
        kind = None
        NUMASSERT = "assert field.value is None or isinstance(field.value, (int, float))"
        if u == NUMASSERT and (is_assign_call(sts[i + 1], "field_value", "encode_number", 4) or is_assign_call(sts[i + 1], "field_value", "encode_number", 5)):
            c = sts[i + 1].value
            if up(c.args[0]) != "field.value":
                raise Unrec("encode_number argument: " + up(c))
            kind = ("number", const_nat(c.args[1]), const_bool(c.args[2]), const_lit(c.args[3], src), const_lit(c.args[4], src) if len(c.args) == 5 else (0, 0, False))
            i += 2
        elif u == NUMASSERT and up(sts[i + 1]) == "field_value = encode_float(field.value)":
            kind = ("float",)
            i += 2
        elif u == "field_value = field.value":
            kind = ("reserved",)
            i += 1
        elif isinstance(st, ast.Assign) and up(st.targets[0]) == "field_value" and isinstance(st.value, ast.IfExp):
            m = re.fullmatch(r"field_value = field\.raw_value if field\.raw_value is not None else lookup_encode_(\w+)\(field\.value\)", u)
            if not m:
                raise Unrec("lookup encode: " + u)
            kind = ("lookup", m.group(1))
            i += 1
        elif isinstance(st, ast.If) and up(st.test) == "field.raw_value is not None":
            b, o = [up(x) for x in st.body], [up(x) for x in st.orelse]
            md = re.fullmatch(r"field_value = encode_date\(field\.value, (\d+)\)", o[1]) if len(o) == 2 else None
            if b == ["field_value = field.raw_value"] and md and o[0] == "assert field.value is None or isinstance(field.value, date)":
                kind = ("date", int(md.group(1)))
            elif (len(b) == 2 and b[0] == "assert isinstance(field.raw_value, (int, float))" and len(o) == 2
                  and o[0] == "assert field.value is None or isinstance(field.value, time)"):
                dv = st.body[1]
                if not (isinstance(dv, ast.Assign) and up(dv.targets[0]) == "field_value" and is_call(dv.value, "round", 1)
                        and isinstance(dv.value.args[0], ast.BinOp) and isinstance(dv.value.args[0].op, ast.Div)
                        and up(dv.value.args[0].left) == "field.raw_value"):
                    raise Unrec("time raw encode: " + b[1])
                res = const_lit(dv.value.args[0].right, src)
                ev = st.orelse[1]
                if not (isinstance(ev, ast.Assign) and up(ev.targets[0]) == "field_value" and is_call(ev.value, "encode_time", 4)
                        and up(ev.value.args[0]) == "field.value" and isinstance(ev.value.args[1], ast.Constant) and type(ev.value.args[1].value) is int
                        and isinstance(ev.value.args[2], ast.Constant) and type(ev.value.args[2].value) is bool):
                    raise Unrec("time value encode: " + o[1])
                if const_lit(ev.value.args[3], src) != res:
                    raise Unrec("time value encode: resolution differs from the raw branch: " + o[1])
                kind = ("time", res, ev.value.args[1].value, ev.value.args[2].value)
            else:
                raise Unrec("raw/value branch: " + u[:200])
            i += 1
        elif isinstance(st, ast.Raise):
            m = re.fullmatch(r"raise Exception\(\"Encoding '(\w+)' not supported\"\)", u)
            if not m:
                raise Unrec("raise: " + u)
            kind = ("unsupported", m.group(1))
            i += 1
        else:
            raise Unrec("encoder field statement: " + u[:200])
        if up(sts[i]) != "assert isinstance(field_value, int)":
            raise Unrec("int assertion expected: " + up(sts[i])[:200])
        m = re.fullmatch(r"data_raw \|= \(field_value & (\d+)\) << (\d+)", up(sts[i + 1]))
        if not m:
            raise Unrec("accumulate: " + up(sts[i + 1])[:200])
        steps.append(("field", fid, fname, kind, int(m.group(1)), int(m.group(2))))
        i += 2
    return steps, ln


def is_assign_call(st, target, fname, nargs):
    return isinstance(st, ast.Assign) and len(st.targets) == 1 and up(st.targets[0]) == target and is_call(st.value, fname, nargs)


def lean_enc_kind(k):
    if k[0] == "number":
        return f"(.number {k[1]} {lbool(k[2])} {llit(k[3])} {llit(k[4])})"
    if k[0] == "time":
        return f"(.time {llit(k[1])} {k[2]} {lbool(k[3])})"
    if k[0] == "lookup":
        return f"(.lookup {lstr(k[1])})"
    if k[0] == "date":
        return f"(.date {k[1]})"
    if k[0] == "unsupported":
        return f"(.unsupported {lstr(k[1])})"
    return f".{k[0]}"


def lean_encfn(name, pgn, steps, ln):
    ss = []
    for s in steps:
        if s[0] == "noLayout":
            ss.append(f".noLayout {s[1]} {lstr(s[2])}")
        else:
            ss.append(f".field {lstr(s[1])} {lstr(s[2])} {lean_enc_kind(s[3])} {s[4]} {s[5]}")
    return f"{{ name := {lstr(name)}, pgn := {pgn}, steps := [\n      " + ",\n      ".join(ss) + f"], len := {lnat_opt(ln)} }}"


# ---- dictionaries
def dict_of_dict(node, keyconv):
    if not isinstance(node, ast.Dict):
        raise Unrec("dict literal expected")
    out = []
    for k, v in zip(node.keys, node.values):
        name = const_str(k)
        if not isinstance(v, ast.Dict):
            raise Unrec("inner dict expected for " + name)
        items = []
        for kk, vv in zip(v.keys, v.values):
            items.append((keyconv(kk), const_str(vv)))
        out.append((name, items))
    return out


def intkey(n):
    if isinstance(n, ast.UnaryOp) and isinstance(n.op, ast.USub):
        return -const_nat(n.operand)
    return const_nat(n)


def lean_enum_table(t, keyfmt):
    return "[\n  " + ",\n  ".join("(%s, [%s])" % (lstr(n), ", ".join(f"({keyfmt(k)}, {lstr(v)})" for k, v in items)) for n, items in t) + "]"


def pgn_of_suffix(sfx):
    m = re.match(r"(\d+)", sfx)
    return int(m.group(1)) if m else 0


# ----------------------------------------------------------------------------- driver
def translate(repo):
    problems = []
    files = {}
    db = json.load(open(f"{repo}/canboat.json"))
    groups = group_db(db["PGNs"])
    # chunk boundaries by number of fields
    total = sum(len(p["Fields"]) for _, g in groups for p in g)
    chunks = [[] for _ in range(NCHUNK)]
    acc = 0
    for pgn, g in groups:
        k = min(NCHUNK - 1, acc * NCHUNK // max(total, 1))
        chunks[k].append((pgn, g))
        acc += sum(len(p["Fields"]) for p in g)
    chunk_of = {pgn: k for k, c in enumerate(chunks) for pgn, _ in c}

    src = Source(open(f"{repo}/nmea2000/pgns.py").read())
    try:
        tree = ast.parse(src.text)
    except SyntaxError as e:
        problems.append(f"pgns.py does not parse: {e}")
        tree = ast.Module(body=[], type_ignores=[])

    dec = [[] for _ in range(NCHUNK)]
    enc = [[] for _ in range(NCHUNK)]
    disps, fasts, revs = [], [], []
    tables = {}
    stray = []
    for node in tree.body:
        try:
            if isinstance(node, (ast.Import, ast.ImportFrom)):
                continue
            if isinstance(node, ast.Assign) and len(node.targets) == 1 and isinstance(node.targets[0], ast.Name):
                n = node.targets[0].id
                if n == "master_dict" or n == "master_flags_dict":
                    tables[n] = dict_of_dict(node.value, intkey)
                    continue
                if n == "master_indirect_lookup_dict":
                    tables[n] = dict_of_dict(node.value, const_str)
                    continue
                if n.startswith("lookup_dict_encode_"):
                    if not isinstance(node.value, ast.Dict):
                        raise Unrec("dict expected: " + n)
                    revs.append((n[len("lookup_dict_encode_"):], [(const_str(k), intkey(v)) for k, v in zip(node.value.keys, node.value.values)]))
                    continue
                if n.startswith("lookup_field_type_dict_"):
                    continue   # dead code path (FIELDTYPE_LOOKUP/KEY_VALUE are not in the database); not modelled
                raise Unrec("top-level assignment " + n)
            if isinstance(node, ast.FunctionDef):
                n = node.name
                if n.startswith("lookup_encode_"):
                    e = n[len("lookup_encode_"):]
                    exp = [f"result = lookup_dict_encode_{e}.get(value, None)",
                           f"if result is None:\n    raise Exception(f'Cant encode this message, {{value}} is missing from {e}')", "return result"]
                    if [up(s) for s in node.body] != exp:
                        raise Unrec("lookup_encode body: " + n)
                    continue
                if n.startswith("lookup_field_type_"):
                    continue
                if n.startswith("is_fast_pgn_"):
                    pgn = int(n[len("is_fast_pgn_"):])
                    body = [s for s in node.body if not (isinstance(s, ast.Expr) and isinstance(s.value, ast.Constant))]
                    u = [up(s) for s in body]
                    if u == ["return True"]:
                        fasts.append((pgn, True))
                    elif u == ["return False"]:
                        fasts.append((pgn, False))
                    elif len(u) == 1 and re.fullmatch(r"raise Exception\('PGEN type \w+ not supported'\)", u[0]):
                        fasts.append((pgn, None))
                    else:
                        raise Unrec("is_fast body: " + n)
                    if node.args.args:
                        raise Unrec("is_fast parameters: " + n)
                    continue
                if n.startswith("decode_pgn_"):
                    sfx = n[len("decode_pgn_"):]
                    params = [a.arg for a in node.args.args]
                    if params == ["data_raw"]:
                        arms, fb = rec_disp(node)
                        disps.append((pgn_of_suffix(sfx), sfx, arms, fb))
                        continue
                    k = chunk_of.get(pgn_of_suffix(sfx))
                    if params != ["_data_raw_"]:
                        raise Unrec("decoder parameters: " + n)
                    try:
                        rec = DecRec(node, src).run()
                        txt = lean_decfn(sfx, rec)
                    except (Unrec, IndexError) as e:
                        problems.append(f"{n}: {e}")
                        txt = lean_decfn_unrec(sfx, pgn_of_suffix(sfx), str(e))
                    if k is None:
                        stray.append(n)
                    else:
                        dec[k].append(txt)
                    continue
                if n.startswith("encode_pgn_"):
                    sfx = n[len("encode_pgn_"):]
                    k = chunk_of.get(pgn_of_suffix(sfx))
                    if [a.arg for a in node.args.args] != ["nmea2000Message"]:
                        raise Unrec("encoder parameters: " + n)
                    try:
                        steps, ln = rec_enc(node, src)
                        txt = lean_encfn(sfx, pgn_of_suffix(sfx), steps, ln)
                    except (Unrec, IndexError) as e:
                        problems.append(f"{n}: {e}")
                        txt = f"{{ name := {lstr(sfx)}, pgn := {pgn_of_suffix(sfx)}, steps := [.unrecognised {lstr(str(e))}], len := none }}"
                    if k is None:
                        stray.append(n)
                    else:
                        enc[k].append(txt)
                    continue
                raise Unrec("top-level function " + n)
            raise Unrec("top-level statement " + up(node)[:80])
        except Unrec as e:
            problems.append(str(e))
            stray.append(str(e))
    for s in stray:
        problems.append(f"code outside the database's PGNs or unrecognised at top level: {s}")

    hdr = "/- GENERATED by tools/translate_tables.py from /repo's working tree. Do not edit. -/\nimport N2k.Model.Tables\nset_option maxRecDepth 100000\nnamespace N2k.Gen\n\n"
    for k in range(NCHUNK):
        kk = f"{k:02d}"
        files[f"Db{kk}.lean"] = hdr + f"def db{kk} : List PgnDef := [\n  " + ",\n  ".join(db_pgn(p) for _, g in chunks[k] for p in g) + "]\n\nend N2k.Gen\n"
        files[f"Dec{kk}.lean"] = hdr + f"def dec{kk} : List DecFn := [\n  " + ",\n  ".join(dec[k]) + "]\n\nend N2k.Gen\n"
        files[f"Enc{kk}.lean"] = hdr + f"def enc{kk} : List EncFn := [\n  " + ",\n  ".join(enc[k]) + "]\n\nend N2k.Gen\n"
    misc = hdr
    misc += "def disps : List (String × Disp) := [\n  " + ",\n  ".join(f"({lstr(sfx)}, {lean_disp(pgn, arms, fb)})" for pgn, sfx, arms, fb in disps) + "]\n\n"
    misc += "def fasts : List FastEntry := [" + ", ".join(f"⟨{p}, {'none' if f is None else '(some ' + lbool(f) + ')'}⟩" for p, f in fasts) + "]\n\n"
    misc += "def strayCode : List String := [" + ", ".join(lstr(s) for s in stray) + "]\n\n"
    misc += "end N2k.Gen\n"
    files["CodeMisc.lean"] = misc
    lk = hdr
    lk += "def masterDict : EnumTable := " + lean_enum_table(tables.get("master_dict", []), lint) + "\n\n"
    lk += "def masterFlagsDict : EnumTable := " + lean_enum_table(tables.get("master_flags_dict", []), lint) + "\n\n"
    lk += "def masterIndirectDict : IndirectTable := " + lean_enum_table(tables.get("master_indirect_lookup_dict", []), lstr) + "\n\n"
    lk += "def revDicts : RevTable := [\n  " + ",\n  ".join("(%s, [%s])" % (lstr(n), ", ".join(f"({lstr(a)}, {lint(b)})" for a, b in items)) for n, items in revs) + "]\n\n"
    lk += "end N2k.Gen\n"
    files["CodeLookups.lean"] = lk
    dbm = hdr
    dbm += "def dbEnums : EnumTable := " + lean_enum_table([(e["Name"], [(it["Value"], it["Name"]) for it in e["EnumValues"]]) for e in db["LookupEnumerations"]], lint) + "\n\n"
    dbm += "def dbBitEnums : EnumTable := " + lean_enum_table([(e["Name"], [(it["Bit"], it["Name"]) for it in e["EnumBitValues"]]) for e in db["LookupBitEnumerations"]], lint) + "\n\n"
    dbm += "def dbIndirectEnums : IndirectTable := " + lean_enum_table(
        [(e["Name"], [(f"{it['Value1']}_{it['Value2']}", it["Name"]) for it in e["EnumValues"]]) for e in db["LookupIndirectEnumerations"]], lstr) + "\n\n"
    dbm += "end N2k.Gen\n"
    files["DbLookups.lean"] = dbm
    allf = "/- GENERATED: the whole tables as concatenations of the chunks. -/\n" + "".join(
        f"import N2k.Gen.Db{k:02d}\nimport N2k.Gen.Dec{k:02d}\nimport N2k.Gen.Enc{k:02d}\n" for k in range(NCHUNK))
    allf += "import N2k.Gen.CodeMisc\nimport N2k.Gen.CodeLookups\nimport N2k.Gen.DbLookups\nnamespace N2k.Gen\n\n"
    allf += "def dbChunks : List (List PgnDef) := [" + ", ".join(f"db{k:02d}" for k in range(NCHUNK)) + "]\n"
    allf += "def decChunks : List (List DecFn) := [" + ", ".join(f"dec{k:02d}" for k in range(NCHUNK)) + "]\n"
    allf += "def encChunks : List (List EncFn) := [" + ", ".join(f"enc{k:02d}" for k in range(NCHUNK)) + "]\n"
    allf += "def dbPgns : List PgnDef := dbChunks.flatten\ndef decFns : List DecFn := decChunks.flatten\ndef encFns : List EncFn := encChunks.flatten\n\nend N2k.Gen\n"
    files["All.lean"] = allf
    # consts.py: the two enums whose members' positions appear in the JSON rendering (`[index]`)
    cn = hdr.replace("import N2k.Model.Tables\n", "")
    try:
        ctree = ast.parse(open(f"{repo}/nmea2000/consts.py").read())
        enums = {}
        for node in ctree.body:
            if isinstance(node, ast.ClassDef) and node.name in ("PhysicalQuantities", "FieldTypes"):
                names = []
                for st in node.body:
                    ok = (isinstance(st, ast.Assign) and len(st.targets) == 1 and isinstance(st.targets[0], ast.Name) and isinstance(st.value, ast.Tuple)
                          and len(st.value.elts) == 1 and up(st.value.elts[0]) == "auto()")
                    if not ok:
                        raise Unrec(f"consts.py {node.name}: member shape {up(st)[:80]}")
                    names.append(st.targets[0].id)
                enums[node.name] = names
        for k in ("PhysicalQuantities", "FieldTypes"):
            if k not in enums:
                raise Unrec("consts.py: enum " + k + " not found")
    except (Unrec, OSError, SyntaxError) as e:
        problems.append(f"consts.py: {e}")
        enums = {"PhysicalQuantities": [], "FieldTypes": []}
    cn += "def pqNames : List String := [" + ", ".join(lstr(x) for x in enums["PhysicalQuantities"]) + "]\n"
    cn += "def ftNames : List String := [" + ", ".join(lstr(x) for x in enums["FieldTypes"]) + "]\n\nend N2k.Gen\n"
    files["Consts.lean"] = cn
    return files, problems


if __name__ == "__main__":
    repo = sys.argv[1] if len(sys.argv) > 1 else "/repo"
    files, problems = translate(repo)
    for n, t in files.items():
        print(n, len(t))
    for p in problems:
        print("PROBLEM", p)
