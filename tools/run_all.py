#!/venv/bin/python
"""run every check registered in MANIFEST.json (quick tier by default) on /repo and validate the evidence files"""
import json
import subprocess
import sys
import time
from pathlib import Path

V = Path(__file__).resolve().parent.parent
tier = sys.argv[1] if len(sys.argv) > 1 else "quick"
only = sys.argv[2:]
man = json.loads((V / "MANIFEST.json").read_text())
bad = 0
for c in man["checks"]:
    pid = c["property_id"]
    if only and pid not in only:
        continue
    t0 = time.time()
    cmd = c["quick_cmd"] if tier == "quick" else c["thorough_cmd"]
    p = subprocess.run(cmd, shell=True, cwd=V, stdout=subprocess.PIPE, stderr=subprocess.STDOUT, text=True)
    last = [l for l in p.stdout.strip().split("\n") if l][-1:] or [""]
    ev = json.loads((V / c["evidence_file"]).read_text())
    cov = ev["coverage"]
    okev = cov["obligations"] == cov["discharged"] and ev["tier"] == tier
    flag = "OK " if p.returncode == 0 and okev else "BAD"
    bad += flag == "BAD"
    print(f"{flag} {pid} rc={p.returncode} {time.time() - t0:.1f}s  {last[0]}")
    for l in p.stdout.split("\n"):
        if l.startswith(("VIOLATION", "KNOWN-FINDING", "HARNESS")):
            print("    " + l)
sys.exit(1 if bad else 0)
