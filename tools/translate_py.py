#!/usr/bin/env python3
"""T2: translate tiny straight-line Python functions of /repo into Lean `def`s over Nat.

Subset: positional parameters; local assignment to a single name; `|=`; if/else (the
rest of the block is duplicated into both arms); `return` of an expression or tuple;
expressions over non-negative ints: names, int constants, `>> << & | + * // %`,
`(1 << e) - 1` (the only subtraction accepted: it cannot go negative), one comparison,
`sum(x[a:b])` over a list-of-bytes parameter.  A *checker* (a function over the attributes
of one record parameter that either raises or falls off its end) becomes a Bool function of
those attributes: `if not (lo <= m.attr <= hi): raise ValueError(..)` contributes `false`,
the end of the body `true`; chained comparisons and `not` are accepted in conditions.
Anything else raises Untranslatable and the caller reports the proof obligation as broken
(never a guess).
"""
import ast
import sys
import textwrap


class Untranslatable(Exception):
    pass


BINOPS = {ast.RShift: '>>>', ast.LShift: '<<<', ast.BitAnd: '&&&', ast.BitOr: '|||',
          ast.Add: '+', ast.Mult: '*', ast.FloorDiv: '/', ast.Mod: '%'}
CMPOPS = {ast.Lt: '<', ast.LtE: '≤', ast.Gt: '>', ast.GtE: '≥', ast.Eq: '=', ast.NotEq: '≠'}


class Fn:
    def __init__(self, node: ast.FunctionDef, src: str):
        self.node = node
        self.src = src
        self.list_params = set()
        self.arity = None
        self.record = None      # checker mode: name of the record parameter
        self.attrs = []

    def expr(self, e) -> str:
        if isinstance(e, ast.Name):
            return e.id
        if isinstance(e, ast.Attribute) and isinstance(e.value, ast.Name) and self.record is not None and e.value.id == self.record:
            if e.attr not in self.attrs:
                raise Untranslatable(f"attribute {e.attr} of the record is not one of {self.attrs}")
            return e.attr
        if isinstance(e, ast.Constant) and isinstance(e.value, int) and not isinstance(e.value, bool) and e.value >= 0:
            return str(e.value)
        if isinstance(e, ast.BinOp):
            if isinstance(e.op, ast.Sub):
                # only (1 << x) - 1
                l, r = e.left, e.right
                if (isinstance(l, ast.BinOp) and isinstance(l.op, ast.LShift) and isinstance(l.left, ast.Constant)
                        and l.left.value == 1 and isinstance(r, ast.Constant) and r.value == 1):
                    return f"((1 <<< {self.expr(l.right)}) - 1)"
                raise Untranslatable("subtraction other than (1 << e) - 1: " + ast.unparse(e))
            op = BINOPS.get(type(e.op))
            if op is None:
                raise Untranslatable("operator " + ast.unparse(e))
            return f"({self.expr(e.left)} {op} {self.expr(e.right)})"
        if isinstance(e, ast.Call) and isinstance(e.func, ast.Name) and e.func.id == 'sum' and len(e.args) == 1:
            a = e.args[0]
            if (isinstance(a, ast.Subscript) and isinstance(a.value, ast.Name) and isinstance(a.slice, ast.Slice)
                    and a.slice.step is None and isinstance(a.slice.lower, ast.Constant) and isinstance(a.slice.upper, ast.Constant)):
                lo, hi = a.slice.lower.value, a.slice.upper.value
                if not (isinstance(lo, int) and isinstance(hi, int) and 0 <= lo <= hi):
                    raise Untranslatable("slice bounds " + ast.unparse(e))
                self.list_params.add(a.value.id)
                return f"(({a.value.id}.drop {lo}).take {hi - lo}).sum"
        raise Untranslatable("expression " + ast.unparse(e))

    def cond(self, e) -> str:
        if isinstance(e, ast.Compare) and len(e.ops) == 1 and type(e.ops[0]) in CMPOPS:
            return f"{self.expr(e.left)} {CMPOPS[type(e.ops[0])]} {self.expr(e.comparators[0])}"
        if isinstance(e, ast.Compare) and len(e.ops) > 1 and all(type(o) in CMPOPS for o in e.ops):
            terms = [e.left] + list(e.comparators)          # a <= b <= c  is  a <= b and b <= c
            return "(" + " ∧ ".join(f"{self.expr(terms[i])} {CMPOPS[type(o)]} {self.expr(terms[i + 1])}" for i, o in enumerate(e.ops)) + ")"
        if isinstance(e, ast.UnaryOp) and isinstance(e.op, ast.Not):
            return f"¬({self.cond(e.operand)})"
        raise Untranslatable("condition " + ast.unparse(e))

    def checker_block(self, stmts, ind) -> str:
        """a body that raises or falls off its end: Bool (true = returns normally)"""
        pad = '  ' * ind
        if not stmts:
            return f"{pad}true\n"
        s, rest = stmts[0], stmts[1:]
        if isinstance(s, ast.Expr) and isinstance(s.value, ast.Constant) and isinstance(s.value.value, str):
            return self.checker_block(rest, ind)
        if isinstance(s, ast.Raise):
            return f"{pad}false\n"
        if isinstance(s, ast.If):
            c = self.cond(s.test)
            a = self.checker_block(list(s.body) + rest, ind + 1)
            b = self.checker_block(list(s.orelse) + rest, ind + 1)
            return f"{pad}if {c} then\n{a}{pad}else\n{b}"
        raise Untranslatable("statement in a checker " + ast.unparse(s))

    def emit_checker(self, lean_name, attrs) -> str:
        a = self.node.args
        if a.vararg or a.kwarg or a.kwonlyargs or a.defaults or a.posonlyargs or len(a.args) != 1:
            raise Untranslatable("a checker takes exactly one record parameter")
        self.record, self.attrs = a.args[0].arg, list(attrs)
        body = self.checker_block(list(self.node.body), 1)
        ps = " ".join(f"({p} : Nat)" for p in attrs)
        return f"def {lean_name} {ps} : Bool :=\n{body}"

    def block(self, stmts, ind) -> str:
        """translate a statement list that must end in a return on every path"""
        pad = '  ' * ind
        if not stmts:
            raise Untranslatable("path without return")
        s, rest = stmts[0], stmts[1:]
        if isinstance(s, ast.Expr) and isinstance(s.value, ast.Constant) and isinstance(s.value.value, str):
            return self.block(rest, ind)
        if isinstance(s, ast.Assign) and len(s.targets) == 1 and isinstance(s.targets[0], ast.Name):
            return f"{pad}let {s.targets[0].id} := {self.expr(s.value)}\n" + self.block(rest, ind)
        if isinstance(s, ast.AugAssign) and isinstance(s.target, ast.Name) and type(s.op) in BINOPS:
            return (f"{pad}let {s.target.id} := ({s.target.id} {BINOPS[type(s.op)]} {self.expr(s.value)})\n"
                    + self.block(rest, ind))
        if isinstance(s, ast.If):
            c = self.cond(s.test)
            if not s.orelse and not rest:
                raise Untranslatable("if without else at end")
            a = self.block(list(s.body) + rest, ind + 1)
            b = self.block(list(s.orelse) + rest, ind + 1)
            return f"{pad}if {c} then\n{a}{pad}else\n{b}"
        if isinstance(s, ast.Return) and s.value is not None:
            if rest:
                raise Untranslatable("code after return")
            if isinstance(s.value, ast.Tuple):
                n = len(s.value.elts)
                txt = "(" + ", ".join(self.expr(x) for x in s.value.elts) + ")"
            else:
                n = 1
                txt = self.expr(s.value)
            if self.arity not in (None, n):
                raise Untranslatable("inconsistent return arity")
            self.arity = n
            return f"{pad}{txt}\n"
        raise Untranslatable("statement " + ast.unparse(s))

    def emit(self, lean_name) -> str:
        a = self.node.args
        if a.vararg or a.kwarg or a.kwonlyargs or a.defaults or a.posonlyargs:
            raise Untranslatable("parameters")
        params = [p.arg for p in a.args]
        body = self.block(list(self.node.body), 1)
        ps = " ".join(f"({p} : {'List Nat' if p in self.list_params else 'Nat'})" for p in params)
        rt = " × ".join(["Nat"] * self.arity)
        return f"def {lean_name} {ps} : {rt} :=\n{body}"


def find_function(tree, qual):
    parts = qual.split('.')
    body = tree.body
    node = None
    for i, p in enumerate(parts):
        node = None
        for n in body:
            if isinstance(n, (ast.FunctionDef, ast.ClassDef)) and n.name == p:
                node = n
                break
        if node is None:
            raise Untranslatable(f"{qual}: not found")
        body = node.body
    if not isinstance(node, ast.FunctionDef):
        raise Untranslatable(f"{qual}: not a function")
    return node


TARGETS = [
    ("nmea2000/decoder.py", "NMEA2000Decoder._extract_header", "extract_header"),
    ("nmea2000/encoder.py", "NMEA2000Encoder._build_header", "build_header"),
    ("nmea2000/utils.py", "decode_int", "decode_int"),
    ("nmea2000/utils.py", "calculate_canbus_checksum", "checksum"),
    # checker: Bool over the listed attributes of its one record parameter (true = no exception)
    ("nmea2000/encoder.py", "NMEA2000Encoder._check_header", "check_header", ["priority", "source", "PGN", "destination"]),
]


def translate(repo: str):
    """returns (lean_text, errors: list[str])"""
    out = ["/- GENERATED by tools/translate_py.py from /repo's working tree. Do not edit. -/",
           "set_option linter.unusedVariables false", "namespace N2k.Straight", ""]
    errors = []
    for rel, qual, lean_name, *attrs in TARGETS:
        try:
            src = open(f"{repo}/{rel}").read()
            node = find_function(ast.parse(src), qual)
            out.append(f"/-- translated from {rel} `{qual}` -/")
            out.append(Fn(node, src).emit_checker(lean_name, attrs[0]) if attrs else Fn(node, src).emit(lean_name))
        except (Untranslatable, SyntaxError, OSError) as ex:
            errors.append(f"{rel}:{qual}: {ex}")
            out.append(f"-- UNTRANSLATABLE {rel} {qual}: {ex}")
            out.append(f"-- (no definition emitted; every theorem about `{lean_name}` fails to build)")
            out.append("")
    out.append("end N2k.Straight")
    return "\n".join(out) + "\n", errors


if __name__ == "__main__":
    repo = sys.argv[1] if len(sys.argv) > 1 else "/repo"
    txt, errs = translate(repo)
    sys.stdout.write(txt)
    for e in errs:
        print("ERROR", e, file=sys.stderr)
