"""Message-level encoder: the real NMEA2000Encoder (`_encode` glue included: range checks, encoder lookup by PGN / PGN+id,
single vs fast-packet, sequence counter, gateway wrapping) vs Model/Encoder.lean (driver `encm`), and the end-to-end
monitor: message -> encoder -> gateway packets -> matching decoder front-end -> message.  Used by C06 (and C03, C07)."""
import copy
import math
import random

import common
import deccorr
import harness
import pgncorr

FORMATS = ("ebyte", "usb", "yd", "actisense")


def _hex_text(s):
    return harness.hx(s.encode() if isinstance(s, str) else bytes(s))


def real_encode(fmt, seq, msg):
    """(canonical result, packets) of the real encoder on `msg` with the sequence counter preset"""
    from nmea2000.encoder import NMEA2000Encoder
    e = NMEA2000Encoder()
    e.sequence_counter = seq
    try:
        if fmt == "frames":
            out = e._encode(msg)
            txt = ",".join(harness.hx(b) for b in out)
        elif fmt == "ebyte":
            out = e.encode_ebyte(msg)
            txt = ",".join(harness.hx(b) for b in out)
        elif fmt == "usb":
            out = e.encode_usb(msg)
            txt = ",".join(harness.hx(b) for b in out)
        elif fmt == "yd":
            out = e.encode_yacht_devices(msg)
            txt = ",".join(harness.hx(b) for b in out)
        else:
            out = [e.encode_actisense(msg)]
            txt = _hex_text(out[0])
    except Exception:
        return "raised", None
    return f"ok {e.sequence_counter} {txt}", out


def decoded_messages(ctx, per_def, seed_off):
    """(suffix, definition, decoded message) for every encodable definition: the messages its own decoder returns"""
    from nmea2000 import pgns
    db = pgncorr.Db(ctx["repo"])
    rnd = random.Random(ctx["seed"] + seed_off)
    decs = dict(pgncorr.decoder_functions(pgns))
    out = []
    for sfx, _efn in pgncorr.encoder_functions(pgns):
        p = db.defs.get(sfx)
        dfn = decs.get(sfx)
        if p is None or dfn is None:
            continue
        got = 0
        for x in [pgncorr.base_payload(p, rnd, "zero")] + pgncorr.payloads_for(p, rnd, per_field=False, n_random=per_def + 2)[3:]:
            try:
                m = dfn(x)
            except Exception:
                continue
            if m is None or pgncorr.field_spec(m) is None:
                continue
            out.append((sfx, p, m))
            got += 1
            if got >= per_def:
                break
    return out, rnd


def addressing(rnd, pgn):
    pdu1 = (pgn >> 8) & 0xFF < 240
    dst = rnd.choice([255, 0, 35, 254]) if pdu1 else 255
    return rnd.randrange(8), rnd.choice([0, 1, 7, 200, 255]), dst


def suite_messages(ctx, name="encoder-messages", fmts=None, types=None):
    harness.load_repo()
    per_def = 1 if ctx["tier"] == "quick" else 4
    msgs, rnd = decoded_messages(ctx, per_def, 71)
    if types:
        msgs = [x for x in msgs if x[1]["Type"] in types]
    s = common.Suite(name, "real NMEA2000Encoder._encode / encode_ebyte / encode_usb / encode_yacht_devices / encode_actisense on whole messages (every encodable definition, the "
                     "messages its decoder returns; random priority/source/destination, preset sequence counter) vs Enc.encode* on the T1 tables: returned packets and the counter afterwards; "
                     "plus rejected inputs: priority 8, source 256, PGN 2^18, unknown PGN, wrong id for a multi-definition PGN, a removed field, non-canonical destination for broadcast PGNs")
    for sfx, p, m in msgs:
        spec = pgncorr.field_spec(m)
        prio, src, dst = addressing(rnd, p["PGN"])
        seq = rnd.randrange(8)
        variants = [("plain", {})]
        k = rnd.random()
        if k < 0.12:
            variants.append(("prio8", {"priority": 8}))
        elif k < 0.24:
            variants.append(("src256", {"source": 256}))
        elif k < 0.32:
            variants.append(("pgn-too-big", {"PGN": 0x40000}))
        elif k < 0.42:
            variants.append(("pgn-unknown", {"PGN": 130999}))
        elif k < 0.55:
            variants.append(("wrong-id", {"id": "noSuchDefinition"}))
        elif k < 0.60:
            variants.append(("dst-noncanonical", {"destination": 35}))
        elif k < 0.65:
            variants.append(("dst-out-of-range", {"destination": rnd.choice([256, 300, 65535])}))
        elif k < 0.75:
            variants.append(("field-removed", {"drop": True}))
        for lab, ch in variants:
            mm = copy.deepcopy(m)
            mm.priority, mm.source, mm.destination = prio, src, dst
            sp = spec
            for a, v in ch.items():
                if a == "drop":
                    if len(mm.fields) > 0:
                        del mm.fields[rnd.randrange(len(mm.fields))]
                        sp = pgncorr.field_spec(mm) or "-"
                else:
                    setattr(mm, a, v)
            for fmt in (fmts or ("frames",) + FORMATS):
                got, _ = real_encode(fmt, seq, mm)
                s.add(f"encm {fmt} {seq} {mm.PGN} {harness.hx(mm.id.encode())} {mm.priority} {mm.source} {mm.destination} {sp}", got, f"{fmt}-{lab}-{got.split()[0]}")
    return [s.run()]


def suite_shared_encoder(ctx):
    """ONE encoder instance for a whole sequence of messages (the model is a function of the message and the counter only): anything the
    encoder remembers between messages besides the counter shows as a disagreement"""
    harness.load_repo()
    from nmea2000.encoder import NMEA2000Encoder
    per_def = 1 if ctx["tier"] == "quick" else 3
    msgs, rnd = decoded_messages(ctx, per_def, 73)
    s = common.Suite("encoder-shared-instance", "one real NMEA2000Encoder instance encodes a shuffled sequence of messages of every encodable definition (all definitions of the "
                     "multi-definition PGNs follow one another), formats mixed; per message the packets and the counter afterwards vs Enc.encode* given the counter before")
    by_pgn = {}
    for sfx, p, m in msgs:
        by_pgn.setdefault(p["PGN"], []).append((sfx, p, m))
    groups = list(by_pgn.values())
    rnd.shuffle(groups)
    e = NMEA2000Encoder()
    for rounds in range(2):
        for g in groups:
            g = g[:]
            rnd.shuffle(g)
            for sfx, p, m in g:
                mm = copy.deepcopy(m)
                mm.priority, mm.source, mm.destination = addressing(rnd, p["PGN"])
                fmt = rnd.choice(FORMATS)
                seq = e.sequence_counter
                try:
                    if fmt == "ebyte":
                        txt = ",".join(harness.hx(b) for b in e.encode_ebyte(mm))
                    elif fmt == "usb":
                        txt = ",".join(harness.hx(b) for b in e.encode_usb(mm))
                    elif fmt == "yd":
                        txt = ",".join(harness.hx(b) for b in e.encode_yacht_devices(mm))
                    else:
                        txt = _hex_text(e.encode_actisense(mm))
                    got = f"ok {e.sequence_counter} {txt}"
                except Exception:
                    got = "raised"
                s.add(f"encm {fmt} {seq} {mm.PGN} {harness.hx(mm.id.encode())} {mm.priority} {mm.source} {mm.destination} {pgncorr.field_spec(mm)}", got,
                      f"{fmt}-{'multi' if len(g) > 1 else 'single'}-{got.split()[0]}")
    return [s.run()]


def monitor_shared(ctx, prop="C02"):
    """the payload a long-lived encoder produces for a message is the payload its definition's own encode function produces
    (which the payload-level checks of C02/C09 examine), whatever was encoded before on that instance"""
    harness.load_repo()
    from nmea2000 import pgns
    from nmea2000.encoder import NMEA2000Encoder
    msgs, rnd = decoded_messages(ctx, 2, 74)
    efns = dict(pgncorr.encoder_functions(pgns))
    by_pgn = {}
    for sfx, p, m in msgs:
        by_pgn.setdefault(p["PGN"], []).append((sfx, p, m))
    e = NMEA2000Encoder()
    hits, n, hist = [], 0, []
    for g in by_pgn.values():
        g = g[:]
        rnd.shuffle(g)
        for sfx, p, m in g:
            n += 1
            try:
                want = efns[sfx](m)
            except Exception:
                want = None
            try:
                got = e._call_encode_function(m)
            except Exception:
                got = None
            hist.append(sfx)
            if want != got:
                hits.append({"key": f"{prop}/encoder-history/{p['PGN']}", "what": f"{sfx}: a long-lived encoder gives {got.hex() if got else 'an error'} after encoding {hist[-4:-1]}, "
                             f"the definition's own encoder gives {want.hex() if want else 'an error'}",
                             "replay": {"kind": "encoder-history", "def": sfx, "before": hist[-6:-1], "fields": pgncorr.field_spec(m)}})
                break
    return hits, n


def replay_shared(rp):
    hits, n = monitor_shared({"repo": common.REPO, "seed": rp.get("seed", 0), "tier": rp.get("tier", "quick")}, rp.get("property", "C02"))
    return not hits, (hits[0]["what"] if hits else f"{n} messages through one encoder instance agree with their definitions' encoders")


# ----------------------------------------------------------------------------- end to end on the real code
def _close(a, b, f):
    """same field value after a trip: numbers within half a resolution step (C09), everything else exactly"""
    if a is None or b is None:
        return a is None and b is None
    if isinstance(a, float) or isinstance(b, float):
        if isinstance(a, str) or isinstance(b, str):
            return False
        if isinstance(a, float) and math.isnan(a):
            return isinstance(b, float) and math.isnan(b)
        res = abs(f.get("Resolution", 0) or 0)
        return abs(a - b) <= res / 2 + 1e-9 * max(abs(a), abs(b), 1.0)
    return a == b


def _via_decoder(fmt, packets, window=False):
    """feed encoder output to a fresh real decoder through the matching front-end; returns the list of results"""
    from nmea2000.decoder import NMEA2000Decoder
    d = NMEA2000Decoder()
    outs = []
    for pk in packets:
        try:
            if fmt == "ebyte":
                outs.append(d.decode_tcp(pk))
            elif fmt == "usb":
                outs.append(d.decode_usb(pk))
            elif fmt == "yd":
                outs.append(d.decode_yacht_devices_string("01:02:03.004 R " + pk.decode().strip()))
            else:
                outs.append(d.decode_actisense_string("A000001.000 " + pk))
        except Exception as e:
            outs.append(("raised", type(e).__name__, str(e)[:80]))
    d.close()
    return outs


def trip_check(p, m, fmt, seq):
    """None, or a description of how the property fails for this message and format"""
    got, packets = real_encode(fmt, seq, m)
    if packets is None:
        return None                 # the encoder refuses the message: nothing to carry (C09 decides whether it may)
    if fmt == "ebyte" and any(len(pk) != 13 for pk in packets):
        return f"ebyte packet lengths {[len(pk) for pk in packets]}"
    if fmt == "usb" and any(len(pk) != 20 for pk in packets):
        return f"usb packet lengths {[len(pk) for pk in packets]}"
    if fmt == "yd" and any((not pk.endswith(b"\r\n")) or b"\r" in pk[:-2] or b"\n" in pk[:-2] for pk in packets):
        return "yacht devices packet is not one CR/LF terminated line"
    outs = _via_decoder(fmt, packets)
    if any(o is not None for o in outs[:-1]):
        return f"a non-final packet returned {str(outs[:-1])[:120]}"
    r = outs[-1]
    if r is None or isinstance(r, tuple):
        return f"the decoder returned {r} for the last packet"
    pdu1 = (m.PGN >> 8) & 0xFF < 240
    exp_dst = m.destination if (pdu1 or fmt == "actisense") else 255
    if (r.PGN, r.id, r.source, r.priority, r.destination) != (m.PGN, m.id, m.source, m.priority, exp_dst):
        return f"header {(r.PGN, r.id, r.source, r.priority, r.destination)} != sent {(m.PGN, m.id, m.source, m.priority, exp_dst)}"
    if len(r.fields) != len(m.fields):
        return f"{len(r.fields)} fields, sent {len(m.fields)}"
    for i, (a, b) in enumerate(zip(m.fields, r.fields)):
        f = p["Fields"][i] if i < len(p["Fields"]) else {}
        if a.id != b.id or not _close(a.value, b.value, f):
            return f"field {a.id}: sent {a.value!r}, received {b.value!r}"
    return None


def monitor_trips(ctx, per_def=None, prop="C06", types=None, fmts=None):
    """C06 itself on the real code, message level: every encodable definition x four formats"""
    harness.load_repo()
    per_def = per_def or (2 if ctx["tier"] == "quick" else 8)
    msgs, rnd = decoded_messages(ctx, per_def, 72)
    if types:
        msgs = [x for x in msgs if x[1]["Type"] in types]
    hits, n = [], 0
    for sfx, p, m in msgs:
        mm = copy.deepcopy(m)
        mm.priority, mm.source, mm.destination = addressing(rnd, p["PGN"])
        if rnd.random() < 0.1:
            # addressing that does not fit the header: whichever format accepts the message has to carry it unchanged
            a, v = rnd.choice([("source", 300), ("source", -1), ("source", 256), ("destination", 256), ("destination", 291), ("priority", 22), ("priority", 8)])
            setattr(mm, a, v)
        seq = rnd.randrange(8)
        for fmt in (fmts or FORMATS):
            n += 1
            why = trip_check(p, mm, fmt, seq)
            if why:
                hits.append({"key": f"{prop}/message-trip/{fmt}/{sfx}", "what": f"{sfx} through {fmt}: {why}",
                             "replay": {"kind": "message-trip", "def": sfx, "format": fmt, "seq": seq, "prio": mm.priority, "src": mm.source, "dst": mm.destination,
                                        "fields": pgncorr.field_spec(mm), "why": why}})
                break
    return hits, n


def monitor_rotation(ctx, prop="C06"):
    """one long-lived encoder feeding one long-lived decoder per format: rotations of 8, 16 and 5 fast-packet definitions, three rounds each
    (with 8 in rotation every stream sees the same sequence counter in consecutive messages); every message must come back"""
    harness.load_repo()
    from nmea2000.encoder import NMEA2000Encoder
    from nmea2000.decoder import NMEA2000Decoder
    msgs, rnd = decoded_messages(ctx, 1, 75)
    fast = [(sfx, p, m) for sfx, p, m in msgs if p["Type"] == "Fast" and len(set(x[1]["PGN"] for x in msgs if x[1]["PGN"] == p["PGN"])) >= 1]
    seen, uniq = set(), []
    for sfx, p, m in fast:
        if p["PGN"] in seen:
            continue
        try:
            NMEA2000Encoder()._call_encode_function(m)       # only messages the encoder accepts: every one advances the counter
        except Exception:
            continue
        seen.add(p["PGN"])
        uniq.append((sfx, p, m))
    hits, n = [], 0
    for fmt in ("ebyte", "usb", "yd"):
        for size in (8, 16, 5):
            ring = rnd.sample(uniq, size)
            e, d = NMEA2000Encoder(), NMEA2000Decoder()
            for rnd_no in range(3):
                for sfx, p, m in ring:
                    mm = copy.deepcopy(m)
                    mm.priority, mm.source, mm.destination = 3, 7, 255
                    n += 1
                    try:
                        pk = {"ebyte": e.encode_ebyte, "usb": e.encode_usb, "yd": e.encode_yacht_devices}[fmt](mm)
                    except Exception:
                        continue
                    outs = []
                    for q in pk:
                        try:
                            outs.append({"ebyte": d.decode_tcp, "usb": d.decode_usb}[fmt](q) if fmt != "yd" else d.decode_yacht_devices_string("01:02:03.004 R " + q.decode().strip()))
                        except Exception as ex:
                            outs.append(("raised", type(ex).__name__))
                    r = outs[-1] if outs else None
                    ok = (all(o is None for o in outs[:-1]) and r is not None and not isinstance(r, tuple) and r.id == mm.id
                          and all(_close(a.value, b.value, p["Fields"][i] if i < len(p["Fields"]) else {}) for i, (a, b) in enumerate(zip(mm.fields, r.fields))))
                    if not ok:
                        hits.append({"key": f"{prop}/rotation/{fmt}/{size}", "what": f"{fmt}: rotation of {size} fast-packet PGNs on one encoder and one decoder, round {rnd_no + 1}: {sfx} did not come back "
                                     f"(per-packet results: {[('msg ' + o.id) if hasattr(o, 'id') else o for o in outs][:8]})",
                                     "replay": {"kind": "rotation", "format": fmt, "size": size, "round": rnd_no + 1, "def": sfx, "ring": [x[0] for x in ring]}})
                        break
                else:
                    continue
                break
    return hits, n


def monitor_shared_headers(ctx, prop="C06"):
    """one long-lived encoder per format sends the same message again and again while exactly ONE of priority, source and destination
    changes from one send to the next (so whatever the encoder remembers under a key that lacks that attribute shows); each send's packets go
    to a fresh decoder: PGN, addressing and priority must be the ones of THIS send"""
    harness.load_repo()
    from nmea2000.encoder import NMEA2000Encoder
    msgs, rnd = decoded_messages(ctx, 1, 76)
    pool = []
    for want_type, want_pdu1 in (("Single", True), ("Single", False), ("Fast", True), ("Fast", False)):
        c = [x for x in msgs if x[1]["Type"] == want_type and (((x[1]["PGN"] >> 8) & 0xFF) < 240) == want_pdu1]
        pool += rnd.sample(c, min(3, len(c)))
    hits, n = [], 0
    for fmt in ("ebyte", "usb", "yd", "actisense"):
        e = NMEA2000Encoder()
        enc = {"ebyte": e.encode_ebyte, "usb": e.encode_usb, "yd": e.encode_yacht_devices, "actisense": e.encode_actisense}[fmt]
        for sfx, p, m in pool:
            pdu1 = (p["PGN"] >> 8) & 0xFF < 240
            hdr = [2, 11, 35 if pdu1 else 255]
            steps = [(0, 6), (1, 12), (0, 3), (1, 11)] + ([(2, 36), (0, 7), (2, 255), (2, 35)] if pdu1 else [(0, 0), (1, 0)])
            sent = []
            for which, val in [(None, None)] + steps:
                if which is not None:
                    hdr[which] = val
                mm = copy.deepcopy(m)
                mm.priority, mm.source, mm.destination = hdr
                n += 1
                try:
                    pk = enc(mm)
                except Exception:
                    break                                   # not encodable: nothing to carry
                pk = pk if isinstance(pk, list) else [pk]
                outs = _via_decoder(fmt, pk)
                r = outs[-1] if outs else None
                sent.append(tuple(hdr))
                if r is None or isinstance(r, tuple) or (r.PGN, r.priority, r.source, r.destination) != (mm.PGN, hdr[0], hdr[1], hdr[2]):
                    got = None if r is None or isinstance(r, tuple) else (r.PGN, r.priority, r.source, r.destination)
                    hits.append({"key": f"{prop}/shared-encoder-header/{fmt}", "what": f"{fmt}: one encoder sends {sfx} with (priority, source, destination) = {sent[-3:]} one after the other; "
                                 f"the last one arrives as (PGN, priority, source, destination) = {got if got else r}, sent {(mm.PGN,) + tuple(hdr)}",
                                 "replay": {"kind": "shared-headers", "format": fmt, "def": sfx}})
                    break
            if hits and hits[-1]["replay"]["format"] == fmt:
                break
    return hits, n


def replay_shared_headers(rp):
    hits, n = monitor_shared_headers({"repo": common.REPO, "seed": rp.get("seed", 0), "tier": rp.get("tier", "quick")}, rp.get("property", "C06"))
    return not hits, (hits[0]["what"] if hits else f"{n} sends through long-lived encoders all arrived with their own header")


def replay_rotation(rp):
    hits, n = monitor_rotation({"repo": common.REPO, "seed": rp.get("seed", 0), "tier": rp.get("tier", "quick")}, rp.get("property", "C06"))
    return not hits, (hits[0]["what"] if hits else f"{n} messages in rotation all came back")


def replay_trip(rp):
    harness.load_repo()
    db = pgncorr.Db(common.REPO)
    ctx = {"repo": common.REPO, "seed": rp.get("seed", 0), "tier": rp.get("tier", "quick")}
    for per_def in (2, 8):
        msgs, rnd = decoded_messages(ctx, per_def, 72)
        for sfx, p, m in msgs:
            mm = copy.deepcopy(m)
            mm.priority, mm.source, mm.destination = addressing(rnd, p["PGN"])
            seq = rnd.randrange(8)
            if sfx == rp["def"] and pgncorr.field_spec(mm) == rp["fields"]:
                why = trip_check(p, mm, rp["format"], seq)
                return why is None, why or "trip ok"
    return False, "message of the replay could not be rebuilt"


def monitor_receive_paths(ctx, prop="C06", n_streams=None):
    """the third sentence of C06 on the real code: packets produced by the real encoder (every format a client reads: EByte, Yacht Devices,
    Waveshare USB), concatenated and cut into reads at arbitrary places, go through the real client's receive path; what the callback gets
    must be what a decoder returns for the packets one by one"""
    harness.load_repo()
    import clientcorr
    import deccorr
    from nmea2000.encoder import NMEA2000Encoder
    msgs, rnd = decoded_messages(ctx, 1, 76)
    n_streams = n_streams or (45 if ctx["tier"] == "quick" else 600)
    hits, n = [], 0
    for t in range(n_streams):
        kind = ("ebyte", "yd", "waveshare")[t % 3]
        enc = NMEA2000Encoder()
        fn = {"ebyte": enc.encode_ebyte, "yd": enc.encode_yacht_devices, "waveshare": enc.encode_usb}[kind]
        packets = []
        for sfx, p, m in rnd.sample(msgs, min(len(msgs), 12)):
            mm = copy.deepcopy(m)
            mm.priority, mm.source, mm.destination = addressing(rnd, p["PGN"])
            try:
                packets += [bytes(x) for x in fn(mm)]
            except Exception:
                continue
            if len(packets) >= rnd.choice([2, 6, 14]):
                break
        if not packets:
            continue
        n += len(packets)
        stream = b"".join(packets)
        mode = rnd.choice(["one", "all", "rand", "rand", "marker"])
        reads = clientcorr.c12_segment(rnd, stream, mode)
        sim = clientcorr.c12_session(kind, packets, reads, "ok")
        exp = clientcorr.reference_outputs(kind, packets)
        got = [deccorr.canon_msg(m) for m in sim.cb_log]
        if exp != got:
            hits.append({"key": f"{prop}/receive-path/{kind}", "what": f"{kind} client: {len(packets)} encoder packets as one stream cut into {len(reads)} reads ({mode}): the callback received {len(got)} "
                                                                       f"messages, a decoder returns {len(exp)} for the packets" + ("" if len(exp) != len(got) else " (same count, different content)"),
                         "replay": {"kind": "receive-path", "client": kind, "packets": [x.hex() for x in packets], "reads": [r.hex() for r in reads]}})
            break
    return hits, n


def replay_receive_path(rp):
    harness.load_repo()
    import clientcorr
    import deccorr
    packets = [bytes.fromhex(x) for x in rp["packets"]]
    reads = [bytes.fromhex(x) for x in rp["reads"]]
    sim = clientcorr.c12_session(rp["client"], packets, reads, "ok")
    exp = clientcorr.reference_outputs(rp["client"], packets)
    got = [deccorr.canon_msg(m) for m in sim.cb_log]
    return exp == got, f"{rp['client']} client: callback received {len(got)} messages, a decoder returns {len(exp)} for the {len(packets)} packets"
