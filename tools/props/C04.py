"""C04 — fast-packet reassembly exact under interleaving, reordering, duplication, loss.
Theorems: Props/C04.lean over Model/Fast.lean + Model/FastKeyed.lean (T3)."""
import itertools
import random

import common
import harness
import pgncorr

PROP_FILES = ["N2k/Props/C04.lean"]
LEAN_TARGETS = ["N2k.Props.C04"]
SUITE_NAMES = ["fast-histories-enumerated", "fast-histories-random"]
ASSUMPTIONS = ["consecutive messages on one stream carry distinct sequence counters (as the property states)",
               "a message's first frame arrives before its other frames and is not itself duplicated"]
TRUSTED_EXTRA = ["C04: hand models Fast/FastKeyed tied by differential runs over enumerated and random frame histories"]
# streams differ in PGN (incl. neighbours inside one 256-block of broadcast PGNs, and PGNs that differ only in the data page bit), source or destination
KEYS = [(130816, 1, 255), (130816, 2, 255), (130816, 1, 7), (126720, 1, 255), (130817, 1, 255), (129029, 1, 255), (129038, 1, 255), (126720, 1, 7), (61184, 1, 7), (130816, 255, 1)]


def problem_relevant(p):
    return False


def spec_frames(seq, p, pad=b""):
    out = [bytes([seq * 32, len(p)]) + p[:6]]
    rest = p[6:]
    i = 1
    while rest:
        out.append(bytes([seq * 32 + i]) + rest[:7])
        rest = rest[7:]
        i += 1
    out[-1] = out[-1] + pad[:8 - len(out[-1])]
    return out


def gen_segment(rnd, seq, ln, mode):
    """(payload, frames-in-arrival-order) for one message: first frame, then a shuffle/dup/loss of the others"""
    p = bytes(rnd.getrandbits(8) for _ in range(ln))
    fr = spec_frames(seq, p, bytes([0xFF] * 7) if rnd.random() < 0.5 else b"")
    rest = fr[1:]
    if mode == "perm":
        rnd.shuffle(rest)
    elif mode == "dup":
        rest = rest + [rnd.choice(rest)] if rest else rest
        rnd.shuffle(rest)
    elif mode == "loss" and rest:
        rest = rest[:]
        del rest[rnd.randrange(len(rest))]
        rnd.shuffle(rest)
    elif mode == "mix":
        rest = [f for f in rest for _ in range(rnd.choice([0, 1, 1, 2]))]
        rnd.shuffle(rest)
    return p, fr, [fr[0]] + rest


def run_real(history):
    """history: [(keyindex, frame)] through the real reassembler"""
    d = harness.fast_decoder()
    out = []
    for k, f in history:
        o, r, live = harness.fast_feed(d, KEYS[k], f)
        out.append(f"{o}/{r}/{live}")
    return out


def req_of(history):
    return "fast.runk " + ",".join(f"{k}:{harness.hx(f)}" for k, f in history)


def _histories(ctx, rnd, n_random):
    hs = []
    # enumerated: one 3-frame message (+1 stale frame): every ordering / duplication pattern of up to 4 arrivals of its later frames
    p = bytes(range(1, 18))
    for pad in (b"", b"\xff\xff\xff"):
        fr = spec_frames(2, p, pad)
        alphabet = fr[1:] + [bytes([0x45, 9, 9])]
        for n in range(0, 5):
            for combo in itertools.product(range(len(alphabet)), repeat=n):
                hs.append(("enum", [(0, fr[0])] + [(0, alphabet[i]) for i in combo]))
    # random multi-stream histories
    for _ in range(n_random):
        streams = []
        kk = rnd.sample(range(len(KEYS)), 4)
        for k in range(rnd.choice([1, 2, 3, 4])):
            seq = rnd.randrange(8)
            frames = []
            for _ in range(rnd.choice([1, 2, 3])):
                _, _, arr = gen_segment(rnd, seq, rnd.choice([0, 3, 6, 7, 8, 13, 14, 20, 21, 40]), rnd.choice(["order", "perm", "dup", "loss", "mix"]))
                frames += arr
                seq = (seq + rnd.choice([1, 1, 1, 3])) % 8
            streams.append([(kk[k], f) for f in frames])
        # random interleaving preserving per-stream order
        h = []
        idx = [0] * len(streams)
        while any(idx[i] < len(streams[i]) for i in range(len(streams))):
            i = rnd.choice([j for j in range(len(streams)) if idx[j] < len(streams[j])])
            h.append(streams[i][idx[i]])
            idx[i] += 1
        if rnd.random() < 0.15:   # truncated frames (0-1 bytes) somewhere
            h.insert(rnd.randrange(len(h) + 1), (0, bytes(rnd.getrandbits(8) for _ in range(rnd.choice([0, 1])))))
        hs.append(("random", h))
    return hs


def correspondence(ctx):
    harness.load_repo()
    rnd = random.Random(ctx["seed"])
    s1 = common.Suite("fast-histories-enumerated", "one 17-byte message (unpadded and padded): first frame, then every sequence of up to 4 arrivals "
                      "over {frame1, frame2, a stale frame} through the real reassembler vs Fast.stepK: per step result, record summary, live records")
    s2 = common.Suite("fast-histories-random", "1-4 concurrent (pgn,src,dst) streams, 1-3 messages each with distinct consecutive counters, "
                      "later frames permuted/duplicated/dropped, last frames padded or not, random interleaving, occasional truncated frame")
    for kind, h in _histories(ctx, rnd, 400 if ctx["tier"] == "quick" else 8000):
        (s1 if kind == "enum" else s2).add(req_of(h), ",".join(run_real(h)), kind + f"-{len(h)}frames")
    return [s1.run(), s2.run()]


def monitor(history_segments):
    """history_segments: per stream list of (payload, all_frames, arrival_list) — returns the expected delivery per arrival
    according to the property (a message is returned exactly when its last missing frame arrives, never again)."""
    exp = []
    for p, fr, arr in history_segments:
        seen = set()
        done = False
        for f in arr:
            before = len(seen)
            seen.add(bytes(f))
            if not done and len(seen) == len(fr) and len(seen) > before:
                exp.append("complete:" + harness.hx(p))
                done = True
            else:
                exp.append("none")
    return exp


def search(ctx, broken, corr_broken):
    global LAST_SEARCH_CANDIDATES
    harness.load_repo()
    rnd = random.Random(ctx["seed"] + 11)
    n = 0
    for trial in range(3000):
        # one or two streams, property-disciplined segments
        nstreams = rnd.choice([1, 2])
        segs = []
        ks = rnd.sample(range(len(KEYS)), nstreams) if trial % 2 else list(range(nstreams))
        for k in range(nstreams):
            seq = rnd.randrange(8)
            ss = []
            for _ in range(rnd.choice([1, 2, 3])):
                ss.append(gen_segment(rnd, seq, rnd.choice([0, 6, 7, 8, 13, 14, 20, 21, 28, 40]), rnd.choice(["order", "perm", "dup", "loss", "mix"])))
                seq = (seq + rnd.choice([1, 4, 7])) % 8
            segs.append(ss)
        for k in range(nstreams):
            n += 1
            # isolated run of stream k
            d = harness.fast_decoder()
            got = [harness.fast_feed(d, KEYS[ks[k]], f)[0] for (_, _, arr) in segs[k] for f in arr]
            exp = monitor(segs[k])
            if got != exp:
                return [_viol("exactness", [(ks[k], f) for (_, _, arr) in segs[k] for f in arr], exp, got)]
        if nstreams == 2:
            a = [(0, f) for (_, _, arr) in segs[0] for f in arr]
            b = [(1, f) for (_, _, arr) in segs[1] for f in arr]
            h, i, j = [], 0, 0
            while i < len(a) or j < len(b):
                if j >= len(b) or (i < len(a) and rnd.random() < 0.5):
                    h.append(a[i]); i += 1
                else:
                    h.append(b[j]); j += 1
            d = harness.fast_decoder()
            got = {0: [], 1: []}
            for k, f in h:
                got[k].append(harness.fast_feed(d, KEYS[ks[k]], f)[0])
            for k in (0, 1):
                exp = monitor(segs[k])
                if got[k] != exp:
                    return [_viol("interleaving", [(ks[j], f) for j, f in h], exp, got[k], stream=ks[k])]
    # stale frames: a late duplicate of a frame of the PREVIOUS message (other counter) arriving in the middle of the next one is ignored
    for trial in range(1500):
        k = rnd.randrange(len(KEYS))
        seq = rnd.randrange(8)
        p1, fr1, _ = gen_segment(rnd, seq, rnd.choice([13, 14, 20, 21, 28]), "order")
        seq2 = (seq + rnd.choice([1, 4, 4, 7])) % 8
        p2, fr2, _ = gen_segment(rnd, seq2, rnd.choice([13, 14, 20, 21, 28]), "order")
        arr1 = fr1 if rnd.random() < 0.5 else fr1[:-1]                      # the first message complete, or its last frame lost
        stale = rnd.choice(fr1[1:])
        pos = rnd.randrange(1, len(fr2))
        arr2 = fr2[:pos] + [stale] + fr2[pos:]
        d = harness.fast_decoder()
        got = [harness.fast_feed(d, KEYS[k], f)[0] for f in arr1 + arr2]
        exp = monitor([(p1, fr1, arr1)]) + ["none" if i == pos else e for i, e in enumerate(_with_gap(monitor([(p2, fr2, fr2)]), pos))]
        n += 1
        if got != exp:
            return [_viol("stale-frame", [(k, f) for f in arr1 + arr2], exp, got, stream=k)]
    # single-frame traffic between the frames of a message — also address claims, with changing NAMEs, from the message's source and from its
    # destination — is not a loss: the message completes as it does without it (public path, real per-PGN decoders)
    hit, n2 = _interleaved_singles(ctx, rnd)
    n += n2
    if hit:
        LAST_SEARCH_CANDIDATES = n
        return [hit]
    # PGNs that share their low 16 (or low 8 + PDU format) bits with a PGN of the other kind: whatever single-frame traffic of the "twin"
    # a decoder — this one or an earlier one in the process — has seen, the frames of a fast-packet PGN are reassembled (public path)
    hit, n3 = _twin_pgns(ctx, rnd)
    n += n3
    if hit:
        LAST_SEARCH_CANDIDATES = n
        return [hit]
    # two decoder objects: frames given to one never complete, restart or swallow a message of the other
    for trial in range(300):
        k = rnd.randrange(len(KEYS))
        seq = rnd.randrange(8)
        p1, fr1, _ = gen_segment(rnd, seq, rnd.choice([13, 20, 28]), "order")
        a, b = harness.fast_decoder(), harness.fast_decoder()
        cut = rnd.randrange(1, len(fr1))
        got = [harness.fast_feed(a, KEYS[k], f)[0] for f in fr1[:cut]] + [harness.fast_feed(b, KEYS[k], f)[0] for f in fr1[cut:]] + \
              [harness.fast_feed(a, KEYS[k], f)[0] for f in fr1[cut:]]
        exp = ["none"] * len(fr1) + ["none"] * (len(fr1) - cut - 1) + ["complete:" + harness.hx(p1)]
        n += 1
        if got != exp:
            return [{"key": "C04/two-decoders", "what": f"two decoder objects: the first got frames 0..{cut - 1} of a message, the second the rest, then the first the rest: results {got}, expected {exp}",
                     "replay": {"kind": "two-decoders", "seed": ctx["seed"]}}]
    LAST_SEARCH_CANDIDATES = n
    return []


def _interleaved_singles(ctx, rnd):
    import copy
    import deccorr
    import enccorr
    from nmea2000.decoder import NMEA2000Decoder
    from nmea2000.encoder import NMEA2000Encoder
    msgs, _ = enccorr.decoded_messages({"seed": ctx["seed"], "tier": "quick", "repo": common.REPO}, 1, 78)
    fast = [(sfx, p, m) for sfx, p, m in msgs if p["Type"] == "Fast"]
    db = pgncorr.Db(common.REPO)
    t = deccorr.Traffic(rnd, db)
    n = 0
    for trial in range(150):
        sfx, p, m = rnd.choice(fast)
        pdu1 = (p["PGN"] >> 8) & 0xFF < 240
        src, dst = rnd.choice([1, 2, 7]), (rnd.choice([1, 2, 7, 35]) if pdu1 else 255)
        mm = copy.deepcopy(m)
        mm.priority, mm.source, mm.destination = 3, src, dst
        try:
            pk = NMEA2000Encoder().encode_ebyte(mm)
        except Exception:
            continue
        if len(pk) < 2:
            continue
        plain = NMEA2000Decoder()
        ref = None
        try:
            for x in pk:
                ref = plain.decode_tcp(x)
        except Exception:
            continue
        if ref is None:
            continue
        d = NMEA2000Decoder()
        hist, got = [], None
        try:
            for i, x in enumerate(pk):
                if i > 0:
                    for _ in range(rnd.choice([0, 1, 2])):
                        who = rnd.choice([src, dst if dst != 255 else src, 9])
                        inp = t.claim(who, rnd.choice(["garmin", "maretron", "airmar"])) if rnd.random() < 0.6 else t.single(who)
                        y = deccorr._ebyte(inp[0], inp[1], inp[2], inp[3], inp[4])
                        hist.append(y.hex())
                        try:
                            d.decode_tcp(y)
                        except Exception:
                            pass
                hist.append(x.hex())
                got = d.decode_tcp(x)
        except Exception as e:
            got = f"raised {type(e).__name__}"
        n += 1
        if got is None or isinstance(got, str) or [repr(f.value) for f in got.fields] != [repr(f.value) for f in ref.fields]:
            return {"key": f"C04/interleaved-single-frames/{sfx}", "what": f"{sfx} from {src} to {dst}: with single-frame traffic (address claims with changing NAMEs, other PGNs) between its frames the last "
                    f"frame returns {got if got is None or isinstance(got, str) else 'other values'}, without it the message", "replay": {"kind": "interleaved", "packets": hist, "fast": [x.hex() for x in pk]}}, n
    return None, n


def _twin_feed(pgn, twin, payload, seq=2, src=3):
    """a fresh public decoder sees one single frame of `twin`, then the frames of a fast-packet message of `pgn`; returns the observations
    of the fast frames (the per-PGN decode step is replaced by a capture of the combined payload, as in harness.fast_decoder)"""
    import deccorr
    d = harness.fast_decoder()
    pdu1 = lambda g: (g >> 8) & 0xFF < 240
    try:
        d.decode_tcp(deccorr._ebyte(twin, 6, src, 255 if not pdu1(twin) else 9, bytes([0x11] * 8)))
    except Exception:
        pass
    out = []
    for f in spec_frames(seq, payload):
        try:
            r = d.decode_tcp(deccorr._ebyte(pgn, 6, src, 255 if not pdu1(pgn) else 9, f))
            out.append("none" if r is None else ("complete:" + harness.hx(r.payload) if hasattr(r, "payload") else "message"))
        except Exception as e:
            out.append("raised:" + type(e).__name__)
    return out


def _twin_pgns(ctx, rnd):
    db = pgncorr.Db(common.REPO)
    kind = {}
    for pgn, g in db.groups.items():
        kind[pgn] = "Fast" if all(p["Type"] == "Fast" for p in g) else ("Single" if all(p["Type"] == "Single" for p in g) else "Mixed")
    fast = sorted(p for p, k in kind.items() if k == "Fast")
    single = sorted(p for p, k in kind.items() if k == "Single")
    pairs = set()
    for m in (0xFFFF, 0xFF00, 0x1FF00, 0xFF):
        by = {}
        for q in single:
            by.setdefault(q & m, q)
        for p_ in fast:
            if p_ & m in by:
                pairs.add((p_, by[p_ & m]))
    pairs = sorted(pairs)
    if len(pairs) > 120:
        pairs = sorted(rnd.sample(pairs, 120) + [x for x in pairs if x[0] in (126464, 126720, 130816)][:6])
    n = 0
    for pgn, twin in pairs:
        payload = bytes((7 * i + 1) & 0xFF for i in range(15))
        got = _twin_feed(pgn, twin, payload)
        exp = ["none", "none", "complete:" + harness.hx(payload)]
        n += 1
        if got != exp:
            return {"key": f"C04/twin-pgn/{pgn}-after-{twin}", "what": f"after one single frame of PGN {twin} the three frames of a 15-byte fast-packet message of PGN {pgn} "
                    f"(database Type Fast) give {got}, expected {exp}", "replay": {"kind": "twin-pgn", "pgn": pgn, "twin": twin}}, n
    return None, n


def _with_gap(lst, pos):
    """the expected results of the frames of a message with one extra (stale) arrival inserted at `pos`"""
    return lst[:pos] + ["none"] + lst[pos:]


def _viol(kind, history, exp, got, stream=None):
    return {"key": f"C04/{kind}/{common.short_hash([(k, f.hex()) for k, f in history])}",
            "what": f"{kind}: expected deliveries {exp} but the decoder returned {got}" + (f" for stream {KEYS[stream]}" if stream is not None else ""),
            "replay": {"kind": "fast-history", "history": [[k, f.hex()] for k, f in history], "expected": exp, "stream": history[0][0] if kind == "exactness" else stream}}


def replay(rp):
    if rp.get("kind") == "twin-pgn":
        harness.load_repo()
        payload = bytes((7 * i + 1) & 0xFF for i in range(15))
        got = _twin_feed(rp["pgn"], rp["twin"], payload)
        exp = ["none", "none", "complete:" + harness.hx(payload)]
        return got == exp, f"after a single frame of {rp['twin']} the frames of {rp['pgn']} give {got}, expected {exp}"
    if rp.get("kind") == "interleaved":
        harness.load_repo()
        from nmea2000.decoder import NMEA2000Decoder
        d, ref, got = NMEA2000Decoder(), NMEA2000Decoder(), None
        r = None
        for x in rp["fast"]:
            r = ref.decode_tcp(bytes.fromhex(x))
        for x in rp["packets"]:
            try:
                o = d.decode_tcp(bytes.fromhex(x))
            except Exception:
                o = None
            if x == rp["fast"][-1]:
                got = o
        ok = r is not None and got is not None and [repr(f.value) for f in got.fields] == [repr(f.value) for f in r.fields]
        return ok, f"the last frame returns {'the message' if ok else got}"
    harness.load_repo()
    if rp.get("kind") == "two-decoders":
        v = search({"seed": rp.get("seed", 0), "tier": "quick", "repo": common.REPO}, [], [])
        return not v, (v[0]["what"] if v else "holds now")
    if rp.get("kind") != "fast-history":
        return False, "not an input replay: " + str(rp.get("broken_theorems") or rp.get("broken_correspondence"))[:500]
    d = harness.fast_decoder()
    got = []
    for k, fh in rp["history"]:
        o = harness.fast_feed(d, KEYS[k], bytes.fromhex(fh))[0]
        if rp.get("stream") is None or k == rp["stream"]:
            got.append(o)
    if rp.get("stream") is not None:
        ok = got == rp["expected"]
        return ok, f"deliveries {got} expected {rp['expected']}"
    return False, f"deliveries {got}"
