"""C07 — the same CAN frame decodes identically through every input format.
Theorems: Props/C07.lean (+C06) over Model/Wire.lean (T3)."""
import common
import harness
import wirecorr

PROP_FILES = ["N2k/Props/C07.lean"]
LEAN_TARGETS = ["N2k.Props.C07"]
SUITE_NAMES = ["wire-decoders"]
ASSUMPTIONS = ["text input on the strict grammar (hex digits, single-space separated tokens); Python's extra laxness (0x, _, signs, exotic whitespace) is outside the model",
               "all five front-ends hand the extracted frame to the one decoding core `_decode`; what the core does with a frame is format-independent by construction (the frame-wise vs pre-assembled fast-packet clause is carried by C03/C04 and the decoder model)"]
TRUSTED_EXTRA = ["C07: Model/Wire.lean hand model of the five front-ends, tied by differential runs with the frame observed at _decode"]


def problem_relevant(p):
    return "_extract_header" in p or "checksum" in p


def correspondence(ctx):
    return wirecorr.decode_suites(ctx)


def search(ctx, broken, corr_broken):
    global LAST_SEARCH_CANDIDATES
    LAST_SEARCH_CANDIDATES = 3000
    hit = wirecorr.five_way(ctx, 3000)
    if hit:
        return [{"key": f"C07/formats-disagree/{hit['id']}-{hit['data']}", "what": f"frame id={hit['id']} data={hit['data']}: expected {hit['expected']}, got {hit['got']}",
                 "replay": {"kind": "five-way", **hit}}]
    return []


def replay(rp):
    if rp.get("kind") != "five-way":
        return False, "not an input replay: " + str(rp.get("broken_theorems") or rp.get("broken_correspondence"))[:500]
    hit = wirecorr.five_way({"seed": rp.get("seed", 0)}, 3000)
    return hit is None, str(hit)
