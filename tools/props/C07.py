"""C07 — the same CAN frame decodes identically through every input format.
Theorems: Props/C07.lean (+C06) over Model/Wire.lean (T3): the five front-ends extract the same frame;
Props/C07Fast.lean over Model/Decoder.lean + the T1 `is_fast` table: frame by frame = pre-assembled for every
fast-packet definition of the database, `already_combined` irrelevant for single-frame definitions."""
import random

import common
import harness
import wirecorr

PROP_FILES = ["N2k/Props/C07.lean", "N2k/Props/C07Fast.lean"]
LEAN_TARGETS = ["N2k.Props.C07", "N2k.Props.C07Fast"]
SUITE_NAMES = ["wire-decoders", "gen-is-fast", "decoder-via-formats"]
ASSUMPTIONS = ["text input on the strict grammar (hex digits, single-space separated tokens); Python's extra laxness (0x, _, signs, exotic whitespace) is outside the model",
               "all five front-ends hand the extracted frame to the one decoding core `_decode`; the frame-level ones with already_combined=False, Actisense and canboat-plain(combined) with True",
               "PGN types ISO and Mixed (65240, 126976: `is_fast_pgn_*` raises by design) are outside the property's 'single-frame and fast-packet' domain",
               "C07_framewise_eq_combined: the stream's reassembly record does not already hold the message's sequence counter (a sender advances its counter per message)"]
TRUSTED_EXTRA = ["C07: Model/Wire.lean hand model of the five front-ends, tied by differential runs with the frame observed at _decode",
                 "C07: T1 translator for the is_fast table (validated against every real is_fast_pgn_* function); Model/Decoder.lean tied by driving the real decoder through its six public deliveries"]


def problem_relevant(p):
    return "_extract_header" in p or "checksum" in p or "is_fast" in p


def suite_is_fast(ctx):
    """every is_fast_pgn_<pgn>() of the real module vs the translated table (validates the T1 translator for this table)"""
    harness.load_repo()
    import nmea2000.pgns as P
    s = common.Suite("gen-is-fast", "is_fast_pgn_<pgn>() of the shipped pgns.py vs Gen.fasts for every PGN with such a function, plus PGNs without one")
    names = sorted(int(n[len("is_fast_pgn_"):]) for n in dir(P) if n.startswith("is_fast_pgn_"))
    for n in names + [1, 59000, 61000, 130999, 262143]:
        f = getattr(P, f"is_fast_pgn_{n}", None)
        if f is None:
            exp = "nofn"
        else:
            try:
                exp = "true" if f() is True else "false" if f() is False else "other"
            except Exception:
                exp = "raises"
        s.add(f"isfast {n}", exp, exp)
    return [s.run()]


def correspondence(ctx):
    import deccorr
    return wirecorr.decode_suites(ctx) + suite_is_fast(ctx) + deccorr.suite_formats(ctx)


def search(ctx, broken, corr_broken):
    global LAST_SEARCH_CANDIDATES
    import deccorr
    out = []
    hit = wirecorr.five_way(ctx, 3000)
    if hit:
        out.append({"key": f"C07/formats-disagree/{hit['id']}-{hit['data']}", "what": f"frame id={hit['id']} data={hit['data']}: expected {hit['expected']}, got {hit['got']}",
                    "replay": {"kind": "five-way", **hit}})
    hits, n = deccorr.monitor_formats(ctx, 8)
    LAST_SEARCH_CANDIDATES = 3000 + n
    return out + hits


def replay(rp):
    if rp.get("kind") == "formats":
        import deccorr
        return deccorr.replay_formats(rp)
    if rp.get("kind") != "five-way":
        return False, "not an input replay: " + str(rp.get("broken_theorems") or rp.get("broken_correspondence"))[:500]
    hit = wirecorr.five_way({"seed": rp.get("seed", 0)}, 3000)
    return hit is None, str(hit)
