"""C17 — identity hash depends exactly on message kind and primary-key fields.
Theorems: Props/C17.lean over Dec.hashKey (key congruence, unit preferences irrelevant, key injectivity for underscore-free ids and
integer keys, no hash with mapping off) + table theorems pinning which fields are primary keys (C01 tables). MD5 collision-freedom is the named gap."""
import hashlib
import random

import common
import deccorr
import harness
import pgncorr

PROP_FILES = ["N2k/Props/C17.lean"] + [f"N2k/Tables/T{k:02d}.lean" for k in range(16)]
LEAN_TARGETS = ["N2k.Props.C17", "N2k.Tables.All"]
SUITE_NAMES = ["decoder-histories", "hash-key-pairs"]
ASSUMPTIONS = ["`different keys => different hashes` is stated on the pre-hash key strings; MD5 collision-freedom is NOT a theorem (it is false in general) — the named gap",
               "the harness computes MD5 of the model's key string with hashlib and compares it with the implementation's digest"]
TRUSTED_EXTRA = ["C17: hashlib.md5 (parameter of the model)"]


def problem_relevant(p):
    return p.startswith("T1")


def suite_pairs(ctx):
    harness.load_repo()
    db = pgncorr.Db(ctx["repo"])
    rnd = random.Random(ctx["seed"] + 67)
    s = deccorr.DecSuite("hash-key-pairs", "for every definition with primary-key fields (decodable ones): pairs of payloads that agree/differ on key fields and on non-key fields, "
                         "from different sources, with and without unit preferences, decoded by separate mapping-enabled decoders vs the model (hash = md5(model key))")
    k = 0
    for sfx, p in db.defs.items():
        if not any(f.get("PartOfPrimaryKey") for f in p["Fields"]) or not all("BitOffset" in f and "BitLength" in f for f in p["Fields"]):
            continue
        base = pgncorr.base_payload(p, rnd, "zero")
        variants = [base]
        for f, o in pgncorr.layout(p):
            n = f["BitLength"]
            if f["FieldType"] in ("RESERVED", "SPARE") or "Match" in f:
                continue
            rr = pgncorr.raw_range(f) if f["FieldType"] in pgncorr.NUMERIC else (0, (1 << n) - 2)
            if not rr or rr[1] <= rr[0]:
                continue
            v = rnd.randint(max(rr[0], 0) + 1, min(rr[1], max(rr[0], 0) + 200))
            variants.append((base & ~(((1 << n) - 1) << o)) | ((v & ((1 << n) - 1)) << o))
            if len(variants) > 6:
                break
        k += 1
        for cfg in ({"map": True}, {"map": True, "units": {"TEMPERATURE": "C", "ANGLE": "deg", "SPEED": "kts", "PRESSURE": "bar"}}):
            name = f"h{k}_{1 if 'units' in cfg else 0}"
            real = deccorr.Real(cfg)
            s.add(f"dec.new {name} {deccorr.cfg_spec(cfg)}", "ok", "new")
            for x in variants:
                nb = max(1, (p.get("Length") or (x.bit_length() + 7) // 8))
                data = (x & ((1 << (8 * nb)) - 1)).to_bytes(nb, "little")
                inp = (p["PGN"], rnd.randrange(8), rnd.choice([1, 2, 7]), 255, data, True, False)
                o, m = real.feed(inp)
                s.add(deccorr.feed_line(name, inp), f"{o} #0", o.split()[0])
            real.close()
    return s.run()


def correspondence(ctx):
    return deccorr.suite_histories(ctx) + [suite_pairs(ctx)]


def monitor(ctx):
    """the property on the real code: equal id + equal key raws <=> equal hash; no hash with mapping off"""
    harness.load_repo()
    from nmea2000.decoder import NMEA2000Decoder
    db = pgncorr.Db(ctx["repo"])
    rnd = random.Random(ctx["seed"] + 68)
    n = 0
    for sfx, p in db.defs.items():
        if not all("BitOffset" in f and "BitLength" in f for f in p["Fields"]):
            continue
        seen = {}
        d_on, d_on2, d_off = NMEA2000Decoder(build_network_map=True), NMEA2000Decoder(build_network_map=True), NMEA2000Decoder()
        d_on.started_at = d_on2.started_at = __import__("datetime").datetime(2000, 1, 1)
        for x in pgncorr.payloads_for(p, rnd, True, 4)[:60]:
            nb = max(1, (p.get("Length") or (x.bit_length() + 7) // 8))
            data = (x & ((1 << (8 * nb)) - 1)).to_bytes(nb, "little")
            outs = []
            for d, src in ((d_on, 1), (d_on2, 9), (d_off, 1)):
                try:
                    outs.append(d._decode(p["PGN"], 3, src, 255, None, data[::-1], b"", True))
                except Exception:
                    outs.append(None)
            n += 1
            m, m2, m0 = outs
            if m is None:
                continue
            psel = db.defs.get(f"{m.PGN}_{m.id}") or db.defs.get(str(m.PGN))
            if psel is None or psel["Id"] != m.id:
                continue
            p_fields = psel["Fields"]
            if m0 is not None and m0.hash is not None:
                return {"kind": "hash", "what": f"{sfx}: hash set although network mapping is off", "function": sfx, "payload": str(x)}, n
            if m.hash is None or (m2 is not None and m2.hash != m.hash):
                return {"kind": "hash", "what": f"{sfx}: hash missing or differs between decoder instances/sources ({m.hash} vs {m2.hash if m2 else None})", "function": sfx, "payload": str(x)}, n
            key = (m.id,) + tuple(repr(f.raw_value) for f in m.fields if f.part_of_primary_key)
            exp_key = (m.id,) + tuple(repr(mf.raw_value) for f, mf in zip(p_fields, m.fields) if f.get("PartOfPrimaryKey"))
            if key != exp_key:
                return {"kind": "hash", "what": f"{sfx}: primary-key flags of the decoded fields differ from the database", "function": sfx, "payload": str(x)}, n
            if hashlib.md5((m.id + "".join("_" + str(mf.raw_value) for f, mf in zip(p_fields, m.fields) if f.get("PartOfPrimaryKey"))).encode()).hexdigest() != m.hash:
                return {"kind": "hash", "what": f"{sfx}: hash {m.hash} is not md5 of id and database primary-key raws {exp_key}", "function": sfx, "payload": str(x)}, n
            if m.hash in seen and seen[m.hash] != exp_key:
                return {"kind": "hash", "what": f"{sfx}: keys {seen[m.hash]} and {exp_key} share hash {m.hash}", "function": sfx, "payload": str(x)}, n
            seen[m.hash] = exp_key
    return None, n


def search(ctx, broken, corr_broken):
    global LAST_SEARCH_CANDIDATES
    hit, n = monitor(ctx)
    LAST_SEARCH_CANDIDATES = n
    if hit:
        return [{"key": f"C17/hash/{hit['function']}", "what": hit["what"], "replay": hit}]
    return []


def replay(rp):
    return False, str(rp.get("what") or rp.get("broken_theorems") or rp.get("broken_correspondence"))[:500]
