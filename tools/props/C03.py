"""C03 — fast-packet segmentation/reassembly inverse. Theorems: Props/C03.lean over Model/Fast.lean (T3)."""
import random

import common
import harness

PROP_FILES = ["N2k/Props/C03.lean"]
LEAN_TARGETS = ["N2k.Props.C03"]
SUITE_NAMES = ["fast-encode-exhaustive", "fast-decode-inorder", "fast-consecutive", "fast-restarted-sender", "fast-public-path"]
EXHAUSTIVE = True
ASSUMPTIONS = ["payload bytes are 0..255; lengths 0..223 (the range the property states); lengths 224..255 are recorded by a witness only"]
TRUSTED_EXTRA = ["C03: Model/Fast.lean is hand-written; tied by exhaustive correspondence over all 224 lengths x 8 counters x 3 fillings on every run"]


def problem_relevant(p):
    return False


def _fill(kind, n, rnd):
    if kind == 0:
        return bytes(i & 0xFF for i in range(n))
    if kind == 1:
        return bytes([0xFF] * n)
    return bytes(rnd.getrandbits(8) for _ in range(n))


def correspondence(ctx):
    harness.load_repo()
    from nmea2000.encoder import NMEA2000Encoder
    rnd = random.Random(ctx["seed"])
    s1 = common.Suite("fast-encode-exhaustive", "all 224 payload lengths x 8 sequence counters x 3 byte fillings through "
                      "_encode_fast_message vs Fast.encode (frames and next counter); every case distinct")
    s2 = common.Suite("fast-decode-inorder", "the frames of every (length, counter) pair fed in order to a real decoder "
                      "(_decode_fast_message, per-PGN decode replaced by a capture of the combined payload) vs Fast.run: "
                      "per-step result and record summary")
    for n in range(224):
        for seq in range(8):
            for kind in range(3):
                p = _fill(kind, n, rnd)
                e = NMEA2000Encoder()
                e.sequence_counter = seq
                fr = e._encode_fast_message(130816, 2, 1, 255, p)
                s1.add(f"fast.enc {seq} {harness.hx(p)}", f"{e.sequence_counter} {','.join(harness.hx(f) for f in fr)}", f"len%7={n % 7}")
                if kind != 1:
                    d = harness.fast_decoder()
                    obs = []
                    for f in fr:
                        o, r, _ = harness.fast_feed(d, (130816, 1, 255), f)
                        obs.append(f"{o}/{r}")
                    s2.add("fast.run " + ",".join(harness.hx(f) for f in fr), ",".join(obs), "single-frame" if n <= 6 else "multi-frame")
    s3 = common.Suite("fast-consecutive", "runs of 20 consecutive messages of random lengths from one encoder (counter "
                      "wrap-around) fed to one decoder stream vs Fast.run")
    for _ in range(30 if ctx["tier"] == "quick" else 400):
        e = NMEA2000Encoder()
        e.sequence_counter = rnd.randrange(8)
        d = harness.fast_decoder()
        frames, obs = [], []
        for _ in range(20):
            p = _fill(2, rnd.choice([0, 1, 5, 6, 7, 13, 14, 20, 50, 223, rnd.randrange(224)]), rnd)
            for f in e._encode_fast_message(130816, 2, 1, 255, p):
                frames.append(f)
                o, r, _ = harness.fast_feed(d, (130816, 1, 255), f)
                obs.append(f"{o}/{r}")
        s3.add("fast.run " + ",".join(harness.hx(f) for f in frames), ",".join(obs), "run-of-20")
    s4 = common.Suite("fast-restarted-sender", "complete messages with arbitrary (also repeated) sequence counters, as a "
                      "restarted sender or several senders sharing a counter state produce, fed to one decoder stream")
    for _ in range(60 if ctx["tier"] == "quick" else 600):
        d = harness.fast_decoder()
        frames, obs = [], []
        for _ in range(6):
            e = NMEA2000Encoder()
            e.sequence_counter = rnd.choice([0, 0, 3, 7, rnd.randrange(8)])
            p = _fill(2, rnd.choice([0, 5, 6, 7, 13, 20, rnd.randrange(224)]), rnd)
            for f in e._encode_fast_message(130816, 2, 1, 255, p):
                frames.append(f)
                o, r, _ = harness.fast_feed(d, (130816, 1, 255), f)
                obs.append(f"{o}/{r}")
        s4.add("fast.run " + ",".join(harness.hx(f) for f in frames), ",".join(obs), "restart")
    import enccorr
    # "every encodable fast-packet PGN definition through the public encode/decode path"
    return [s1.run(), s2.run(), s3.run(), s4.run()] + enccorr.suite_messages(ctx, "fast-public-path", fmts=("frames", "ebyte"), types=("Fast",))


def _spec_frames(seq, p):
    """the property's own description of the frames"""
    out = [bytes([seq * 32, len(p)]) + p[:6]]
    rest = p[6:]
    i = 1
    while rest:
        out.append(bytes([seq * 32 + i]) + rest[:7])
        rest = rest[7:]
        i += 1
    return out


def _monitor_case(seq, p):
    from nmea2000.encoder import NMEA2000Encoder
    e = NMEA2000Encoder()
    e.sequence_counter = seq
    try:
        fr = e._encode_fast_message(130816, 2, 1, 255, p)
    except Exception as ex:
        return f"encoder raised {type(ex).__name__}: {ex}"
    if [bytes(f) for f in fr] != _spec_frames(seq, p):
        return f"frames {[f.hex() for f in fr]} != expected {[f.hex() for f in _spec_frames(seq, p)]}"
    if e.sequence_counter != (seq + 1) % 8:
        return f"counter after encode {e.sequence_counter}"
    d = harness.fast_decoder()
    outs = [harness.fast_feed(d, (130816, 1, 255), f)[0] for f in fr]
    if outs[:-1] != ["none"] * (len(fr) - 1) or outs[-1] != "complete:" + harness.hx(p):
        return f"decoder outputs {outs}"
    return None


def search(ctx, broken, corr_broken):
    global LAST_SEARCH_CANDIDATES
    harness.load_repo()
    rnd = random.Random(ctx["seed"] + 3)
    n = 0
    for ln in range(224):
        for seq in range(8):
            p = _fill(2, ln, rnd)
            n += 1
            bad = _monitor_case(seq, p)
            if bad:
                LAST_SEARCH_CANDIDATES = n
                return [{"key": f"C03/len{ln}-seq{seq}", "what": bad,
                         "replay": {"kind": "fast-roundtrip", "seq": seq, "payload": p.hex()}}]
    # consecutive messages: distinct counters, each delivered once
    from nmea2000.encoder import NMEA2000Encoder
    e = NMEA2000Encoder()
    d = harness.fast_decoder()
    sent, got, prev = [], [], None
    for k in range(40):
        p = _fill(2, rnd.randrange(224), rnd)
        sent.append(p)
        fr = e._encode_fast_message(130816, 2, 1, 255, p)
        sc = fr[0][0] >> 5
        if prev is not None and sc == prev:
            return [{"key": "C03/counter-not-advanced", "what": f"message {k} reuses sequence counter {sc}",
                     "replay": {"kind": "fast-consecutive", "payloads": [x.hex() for x in sent]}}]
        prev = sc
        for f in fr:
            o = harness.fast_feed(d, (130816, 1, 255), f)[0]
            if o.startswith("complete:"):
                got.append(o[9:])
    LAST_SEARCH_CANDIDATES = n + 40
    if got != [harness.hx(x) for x in sent]:
        return [{"key": "C03/consecutive", "what": "consecutive messages not each returned once in order",
                 "replay": {"kind": "fast-consecutive", "payloads": [x.hex() for x in sent]}}]
    # a decoder that has already returned a message: the next complete message, whatever its counter
    for seq in range(8):
        for ln in (0, 6, 7, 20, 223):
            bad = _monitor_twice(seq, _fill(2, ln, rnd), _fill(2, ln, rnd))
            LAST_SEARCH_CANDIDATES += 1
            if bad:
                return [{"key": f"C03/second-message-same-counter/len{ln}-seq{seq}", "what": bad[0],
                         "replay": {"kind": "fast-twice", "seq": seq, "payloads": bad[1]}}]
    # every encodable fast definition through the public path: message -> encoder -> packets -> decoder -> message
    import enccorr
    hits, n = enccorr.monitor_trips(ctx, prop="C03", types=("Fast",), fmts=("ebyte", "usb"))
    h2, n2 = enccorr.monitor_rotation(ctx, "C03")
    LAST_SEARCH_CANDIDATES += n + n2
    return (hits + h2)[:3]


def _monitor_twice(seq, p1, p2):
    from nmea2000.encoder import NMEA2000Encoder
    d = harness.fast_decoder()
    got = []
    for p in (p1, p2):
        e = NMEA2000Encoder()
        e.sequence_counter = seq
        for f in e._encode_fast_message(130816, 2, 1, 255, p):
            o = harness.fast_feed(d, (130816, 1, 255), f)[0]
            if o != "none":
                got.append(o)
    exp = ["complete:" + harness.hx(p1), "complete:" + harness.hx(p2)]
    if got != exp:
        return f"two complete messages with counter {seq} on one stream returned {got}", [p1.hex(), p2.hex()]
    return None


def replay(rp):
    harness.load_repo()
    if rp.get("kind") == "fast-roundtrip":
        bad = _monitor_case(rp["seq"], bytes.fromhex(rp["payload"]))
        return bad is None, bad or "holds now"
    if rp.get("kind") == "fast-twice":
        bad = _monitor_twice(rp["seq"], *[bytes.fromhex(x) for x in rp["payloads"]])
        return bad is None, (bad[0] if bad else "holds now")
    if rp.get("kind") == "message-trip":
        import enccorr
        return enccorr.replay_trip(rp)
    if rp.get("kind") == "rotation":
        import enccorr
        return enccorr.replay_rotation(rp)
    return False, "not an input replay: " + str(rp.get("broken_theorems") or rp.get("broken_correspondence") or rp.get("kind"))
