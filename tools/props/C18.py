"""C18 — preferred-unit conversion rewrites only value and unit of matching quantities.
Theorems: Props/C18.lean over Dec.applyUnits and the conversion functions (frame rule, untouched fields, absent stays absent, decode commutes with
conversion, bar exact, Celsius accuracy) + database fact (all convertible quantities are NUMBER fields); T3."""
import random

import common
import deccorr
import harness
import pgncorr

PROP_FILES = ["N2k/Props/C18.lean"]
LEAN_TARGETS = ["N2k.Props.C18"]
SUITE_NAMES = ["decoder-histories", "unit-conversions"]
ASSUMPTIONS = ["Python float arithmetic is modelled as exact rationals with round-to-nearest-even (Model/Num.lean); math.degrees(x) = x * (180/pi) in binary64; round(x, n) is the correctly rounded decimal rounding"]
TRUSTED_EXTRA = ["C18: conversion functions are hand models tied by differential runs over the quantity fields' whole raw ranges (16-bit fields exhaustively in the thorough tier)"]


def problem_relevant(p):
    return False


# units that belong to ANOTHER quantity's conversions: a recognised unit name under the wrong quantity must change nothing
CROSS = {"ELECTRICAL_CHARGE": "C", "ANGULAR_VELOCITY": "deg", "GEOGRAPHICAL_LATITUDE": "deg", "GEOGRAPHICAL_LONGITUDE": "Deg", "DISTANCE": "f", "TEMPERATURE": "deg",
         "ANGLE": "c", "SPEED": "bar", "PRESSURE": "kts", "LENGTH": "psi", "POTENTIAL_DIFFERENCE": "kts", "TIME": "c", "DURATION": "F", "VOLUME": "bar", "FREQUENCY": "deg"}


def rounding_boundary_raws(f, rnd, per=5):
    """raw values whose converted value lies next to a rounding boundary of the library's conversion (°F to whole degrees, °C to 0.01,
    degrees to whole degrees, knots to 0.1): where a conversion that rounds twice, or with another rule, first shows"""
    import math
    q, res, ofs = f.get("PhysicalQuantity"), f.get("Resolution"), f.get("Offset", 0)
    rr = pgncorr.raw_range(f)
    if not rr or not res:
        return []
    lo, hi = rr[0] * res + ofs, rr[1] * res + ofs
    inv = {"TEMPERATURE": [(lambda k: (k + 0.5 - 32) * 5 / 9 + 273.15, lambda v: (v - 273.15) * 9 / 5 + 32, 1), (lambda k: (k + 0.5) / 100 + 273.15, lambda v: (v - 273.15) * 100, 1)],
           "ANGLE": [(lambda k: (k + 0.5) * math.pi / 180, lambda v: v * 180 / math.pi, 1)],
           "SPEED": [(lambda k: (k + 0.5) / 10 * 1852 / 3600, lambda v: v * 3600 / 1852 * 10, 1)]}.get(q, [])
    out = []
    for back, fwd, _ in inv:
        a, b = sorted((fwd(lo), fwd(hi)))
        if b - a < 2:
            continue
        for _ in range(per):
            k = rnd.randint(int(a) + 1, int(b) - 1)
            r0 = round((back(k) - ofs) / res)
            out += [r for r in (r0 - 1, r0, r0 + 1) if rr[0] <= r <= rr[1]]
    return out


def suite_units(ctx):
    harness.load_repo()
    db = pgncorr.Db(ctx["repo"])
    rnd = random.Random(ctx["seed"] + 69)
    s = deccorr.DecSuite("unit-conversions", "every database field with a convertible quantity (TEMPERATURE, PRESSURE, ANGLE, SPEED): raw values across the field's range (ends, zero, NA, random; "
                         "all values of 16-bit fields in the thorough tier) decoded under preference maps in mixed letter case, unrecognised units and maps for other quantities, vs the model")
    prefs = [{"TEMPERATURE": "C", "ANGLE": "Deg", "SPEED": "KTS", "PRESSURE": "bar"}, {"TEMPERATURE": "F", "PRESSURE": "PSI"}, {"TEMPERATURE": "kelvin", "ANGLE": "grad", "SPEED": "mph"},
             {"PRESSURE": "Bar"}, {"PRESSURE": "kPa", "TEMPERATURE": "C", "SPEED": "mph", "ANGLE": "deg"}, {"TEMPERATURE": "K", "PRESSURE": "psi", "ANGLE": "rad", "SPEED": "kts"}, CROSS]
    k = 0
    done = set()
    for sfx, p in db.defs.items():
        if not all("BitOffset" in f and "BitLength" in f for f in p["Fields"]):
            continue
        qf = [(f, o) for f, o in pgncorr.layout(p) if f.get("PhysicalQuantity") in ("TEMPERATURE", "PRESSURE", "ANGLE", "SPEED")]
        if not qf:
            if any(f.get("PhysicalQuantity") in CROSS for f in p["Fields"]):
                # a definition with other quantities only: one legal and one random payload under the cross-quantity map
                k += 1
                name = f"x{k}"
                real = deccorr.Real({"units": CROSS})
                s.add(f"dec.new {name} {deccorr.cfg_spec({'units': CROSS})}", "ok", "new")
                for x in (pgncorr.base_payload(p, rnd, "zero"), pgncorr.base_payload(p, rnd, "rand")):
                    nb = max(1, (p.get("Length") or (x.bit_length() + 7) // 8))
                    inp = (p["PGN"], 3, 1, 255, (x & ((1 << (8 * nb)) - 1)).to_bytes(nb, "little"), True, False)
                    o, m = real.feed(inp)
                    s.add(deccorr.feed_line(name, inp), f"{o} #0", "cross-" + o.split()[0])
                real.close()
            continue
        base = pgncorr.base_payload(p, rnd, "zero")
        pls = [base]
        for f, o in qf:
            n = f["BitLength"]
            key = (f["PhysicalQuantity"], n, bool(f.get("Signed")), repr(f["Resolution"]))
            rr = pgncorr.raw_range(f)
            vals = pgncorr.boundary_raws(f, rnd) + rounding_boundary_raws(f, rnd)
            if rr:
                full = ctx["tier"] != "quick" and n <= 16 and key not in done
                lo, hi = max(rr[0], -(1 << 15)), min(rr[1], 1 << 16)
                # every raw value of fields up to 12 bits; every 16th (plus the ends) of 16-bit fields: the rational model is slow
                vals += (list(range(lo, hi)) if n <= 12 else list(range(lo, hi, 16)) + [hi - 1]) if full else [rnd.randint(rr[0], rr[1]) for _ in range(6)]
            done.add(key)
            pls += [(base & ~(((1 << n) - 1) << o)) | ((v & ((1 << n) - 1)) << o) for v in vals]
        k += 1
        for j, pr in enumerate(prefs if k % 7 == 0 else [prefs[0], prefs[1], prefs[4 + k % 2], CROSS]):
            name = f"u{k}_{j}"
            real = deccorr.Real({"units": pr})
            s.add(f"dec.new {name} {deccorr.cfg_spec({'units': pr})}", "ok", "new")
            for x in pls:
                nb = max(1, (p.get("Length") or (x.bit_length() + 7) // 8))
                inp = (p["PGN"], 3, 1, 255, (x & ((1 << (8 * nb)) - 1)).to_bytes(nb, "little"), True, False)
                o, m = real.feed(inp)
                s.add(deccorr.feed_line(name, inp), f"{o} #0", o.split()[0])
            real.close()
    return s.run()


def correspondence(ctx):
    return deccorr.suite_histories(ctx) + [suite_units(ctx)]


def monitor(ctx, only=None):
    """the property on the real code: decoding with preferences = decoding without, except value/unit of fields with a recognised preference"""
    import math
    harness.load_repo()
    from nmea2000.decoder import NMEA2000Decoder
    from nmea2000.consts import PhysicalQuantities as PQ
    db = pgncorr.Db(ctx["repo"])
    rnd = random.Random(ctx["seed"] + 70)
    conv = {("TEMPERATURE", "c"): ("C", lambda v: v - 273.15, 0.005), ("TEMPERATURE", "f"): ("F", lambda v: (v - 273.15) * 9 / 5 + 32, 0.5),
            ("PRESSURE", "bar"): ("Bar", lambda v: v / 100000, 0), ("PRESSURE", "psi"): ("PSI", lambda v: v / 6894.76, 0),
            ("ANGLE", "deg"): ("Deg", lambda v: v * 180 / math.pi, 0.5), ("SPEED", "kts"): ("kts", lambda v: v * 3600 / 1852, 0.05)}
    SI_UNIT = {"TEMPERATURE": "K", "PRESSURE": "Pa", "ANGLE": "rad", "SPEED": "m/s"}
    n = 0
    maps = [{"TEMPERATURE": "C", "ANGLE": "DEG", "SPEED": "Kts", "PRESSURE": "BAR"}, {"TEMPERATURE": "f", "PRESSURE": "psi"}, {"TEMPERATURE": "x", "ANGLE": "rad"},
            {"PRESSURE": "kPa", "TEMPERATURE": "C", "SPEED": "mph", "ANGLE": "deg"}, {"TEMPERATURE": "K", "PRESSURE": "psi", "ANGLE": "rad", "SPEED": "kts"}, CROSS, CROSS]
    jobs = []
    for sfx, p in db.defs.items():
        if not all("BitOffset" in f and "BitLength" in f for f in p["Fields"]) or not any(f.get("PhysicalQuantity") for f in p["Fields"]):
            continue
        if any(f.get("PhysicalQuantity") in SI_UNIT for f in p["Fields"]):
            jobs += [(sfx, p, maps[0]), (sfx, p, maps[1]), (sfx, p, rnd.choice(maps[2:]))]       # every conversion of every convertible field
        else:
            jobs.append((sfx, p, rnd.choice(maps)))
    if only:
        jobs = [(only[0], db.defs[only[0]], only[2])]
    for sfx, p, pr in jobs:
        d1 = NMEA2000Decoder(preferred_units={PQ[k]: v for k, v in pr.items()})
        d0 = NMEA2000Decoder()
        base = pgncorr.base_payload(p, rnd, "zero")
        extra = []
        for f, o in pgncorr.layout(p):
            if f.get("PhysicalQuantity") in SI_UNIT:
                nbits = f["BitLength"]
                extra += [(base & ~(((1 << nbits) - 1) << o)) | ((v & ((1 << nbits) - 1)) << o) for v in rounding_boundary_raws(f, rnd, 8)]
        for x in ([only[1]] * 3 if only else pgncorr.payloads_for(p, rnd, True, 3)[:80] + extra):
            nb = max(1, (p.get("Length") or (x.bit_length() + 7) // 8))
            data = (x & ((1 << (8 * nb)) - 1)).to_bytes(nb, "little")[::-1]
            try:
                m0 = d0._decode(p["PGN"], 3, 1, 255, None, data, b"", True)
            except Exception:
                continue
            n += 1
            try:
                m1 = d1._decode(p["PGN"], 3, 1, 255, None, data, b"", True)
            except Exception as e:
                return {"what": f"{sfx}: decoding with preferences {pr} raises {type(e).__name__} where decoding without succeeds", "function": sfx, "payload": str(x), "prefs": pr}, n
            if m0 is None:
                continue
            if m1 is not None and p.get("Type") == "Fast" and n % 3 == 0 and len(data) <= 223:
                # the same message arriving as CAN frames (fast-packet reassembly) through the public entry point: the preferences apply
                # exactly as for the pre-assembled payload
                import deccorr
                mf = None
                try:
                    for fr in deccorr.spec_frames(n % 8, data[::-1]):
                        mf = d1.decode_tcp(deccorr._ebyte(p["PGN"], 3, 1, 255, fr)) if len(fr) <= 8 else None
                except Exception as e:
                    mf = f"raised {type(e).__name__}"
                if mf is None or isinstance(mf, str) or [(f.id, repr(f.value), f.unit_of_measurement) for f in mf.fields] != [(f.id, repr(f.value), f.unit_of_measurement) for f in m1.fields]:
                    bad = next(((a.id, a.value, a.unit_of_measurement, b.value, b.unit_of_measurement) for a, b in zip(m1.fields, getattr(mf, "fields", []) or [])
                                if (repr(a.value), a.unit_of_measurement) != (repr(b.value), b.unit_of_measurement)), None)
                    return {"what": f"{sfx} with preferences {pr}: the message reassembled from frames differs from the pre-assembled one "
                                    f"({'no message' if mf is None or isinstance(mf, str) else bad}: field, value/unit pre-assembled, value/unit from frames)", "function": sfx, "payload": str(x), "prefs": pr}, n
            if m1 is None or len(m1.fields) != len(m0.fields) or (m1.PGN, m1.id, m1.source, m1.destination, m1.priority, m1.hash) != (m0.PGN, m0.id, m0.source, m0.destination, m0.priority, m0.hash):
                return {"what": f"{sfx}: message attributes differ with preferences {pr}", "function": sfx, "payload": str(x), "prefs": pr}, n
            for f0, f1 in zip(m0.fields, m1.fields):
                q = f0.physical_quantities.name if f0.physical_quantities else None
                c = conv.get((q, pr.get(q, "").lower())) if q else None
                if c is not None and f0.unit_of_measurement != SI_UNIT[q]:
                    c = None        # the database gives this field in another unit already (4 angles in degrees): no conversion from the SI unit applies
                same_rest = (f0.id, f0.name, f0.description, f0.raw_value if not (isinstance(f0.raw_value, float) and math.isnan(f0.raw_value)) else None, f0.type, f0.part_of_primary_key) == \
                            (f1.id, f1.name, f1.description, f1.raw_value if not (isinstance(f1.raw_value, float) and math.isnan(f1.raw_value)) else None, f1.type, f1.part_of_primary_key)
                if not same_rest:
                    return {"what": f"{sfx} field {f0.id}: raw value or metadata changed by preferences {pr}", "function": sfx, "payload": str(x), "prefs": pr}, n
                if c is None:
                    if (f0.value, f0.unit_of_measurement) != (f1.value, f1.unit_of_measurement) and not (f0.value != f0.value):
                        return {"what": f"{sfx} field {f0.id} ({q}): changed although no recognised preference applies ({pr})", "function": sfx, "payload": str(x), "prefs": pr}, n
                else:
                    lab, fn, tol = c
                    if f1.unit_of_measurement != lab or (f0.value is None) != (f1.value is None):
                        return {"what": f"{sfx} field {f0.id}: unit label {f1.unit_of_measurement!r} / absent value handling wrong under {pr}", "function": sfx, "payload": str(x), "prefs": pr}, n
                    if f0.value is not None and abs(f1.value - fn(f0.value)) > tol + abs(fn(f0.value)) * 1e-12 + 1e-12:
                        return {"what": f"{sfx} field {f0.id}: {f0.value} {f0.unit_of_measurement} converted to {f1.value} {lab}, expected {fn(f0.value)} (tolerance {tol})", "function": sfx, "payload": str(x), "prefs": pr}, n
    return None, n


def search(ctx, broken, corr_broken):
    global LAST_SEARCH_CANDIDATES
    hit, n = monitor(ctx)
    LAST_SEARCH_CANDIDATES = n
    if hit:
        return [{"key": f"C18/units/{hit['function']}", "what": hit["what"], "replay": {"kind": "units", **hit}}]
    return []


def replay(rp):
    if rp.get("kind") != "units" or "prefs" not in rp:
        return False, "not an input replay: " + str(rp.get("what") or rp.get("broken_theorems") or rp.get("broken_correspondence"))[:500]
    hit, _ = monitor({"seed": rp.get("seed", 0), "tier": "quick", "repo": common.REPO}, only=(rp["function"], int(rp["payload"]), rp["prefs"]))
    return hit is None, (hit["what"] if hit else "holds now")
