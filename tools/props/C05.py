"""C05 — CAN identifier packing/parsing mutually inverse. Theorems: lean/N2k/Props/C05.lean about the
T2 translations of _extract_header/_build_header (regenerated every run)."""
import itertools
import random

import common
import harness

PROP_FILES = ["N2k/Props/C05.lean"]
LEAN_TARGETS = ["N2k.Props.C05"]
SUITE_NAMES = ["t2-header", "header-public-path", "decoder-histories"]
ASSUMPTIONS = ["identifiers/fields are non-negative Python ints (the only values the callers produce)"]
TRUSTED_EXTRA = ["C05: theorems are stated about Gen/Straight.lean, i.e. about the translator's reading of the two functions"]
EXHAUSTIVE = False


def problem_relevant(p):
    return "_extract_header" in p or "_build_header" in p


def _ids(ctx):
    rnd = random.Random(ctx["seed"])
    vals = set()
    for prio in (0, 1, 6, 7):
        for dp in range(4):
            for pf in (0, 1, 0xEE, 0xEF, 0xF0, 0xF1, 0xFF):
                for ps in (0, 1, 0xFE, 0xFF):
                    for src in (0, 1, 0xFE, 0xFF):
                        vals.add((prio << 26) | (dp << 24) | (pf << 16) | (ps << 8) | src)
    n = 20000 if ctx["tier"] == "quick" else 300000
    for _ in range(n):
        vals.add(rnd.getrandbits(29))
    for _ in range(200):
        vals.add(rnd.getrandbits(rnd.choice([30, 31, 32, 40])))   # beyond 29 bits too: totality of the translation
    return sorted(vals)


def correspondence(ctx):
    harness.load_repo()
    from nmea2000.decoder import NMEA2000Decoder
    from nmea2000.encoder import NMEA2000Encoder
    from nmea2000.utils import decode_int, calculate_canbus_checksum
    s = common.Suite("t2-header", "boundary product of prio/DP/PF/PS/src plus seeded random 29..40-bit ids through "
                     "_extract_header; build inputs incl. non-canonical (PDU2 with dst != 255, PDU1 with low byte set); "
                     "decode_int and checksum on random arguments; distinct = distinct request lines")
    rnd = random.Random(ctx["seed"] + 1)
    for i in _ids(ctx):
        s.add(f"hdr.parse {i}", " ".join(map(str, NMEA2000Decoder._extract_header(i))), "parse")
    pgns = [0, 0xEF00, 0xEF01, 0xF000, 0xF0FF, 0x1F000, 0x1EF00, 0x3FFFF, 59904, 60928, 126720, 129025, 130816, 0x3EE00]
    for pgn, src, dst, prio in itertools.product(pgns, (0, 1, 254, 255), (0, 5, 255), (0, 3, 7)):
        s.add(f"hdr.build {pgn} {src} {dst} {prio}", str(NMEA2000Encoder._build_header(pgn, src, dst, prio)), "build")
    for _ in range(3000 if ctx["tier"] == "quick" else 50000):
        pgn, src, dst, prio = rnd.getrandbits(18), rnd.getrandbits(8), rnd.getrandbits(8), rnd.getrandbits(3)
        if rnd.random() < 0.1:
            pgn, src, dst, prio = rnd.getrandbits(20), rnd.getrandbits(10), rnd.getrandbits(10), rnd.getrandbits(5)
        s.add(f"hdr.build {pgn} {src} {dst} {prio}", str(NMEA2000Encoder._build_header(pgn, src, dst, prio)), "build-random")
    for _ in range(2000):
        d, o, l = rnd.getrandbits(rnd.choice([8, 64, 200])), rnd.randrange(0, 70), rnd.randrange(0, 70)
        s.add(f"decint {d} {o} {l}", str(decode_int(d, o, l)), "decode_int")
        b = bytes(rnd.getrandbits(8) for _ in range(rnd.choice([0, 1, 2, 3, 18, 19, 20, 25])))
        s.add(f"cksum {harness.hx(b)}", str(calculate_canbus_checksum(b)), "checksum")
    import enccorr
    import deccorr
    # the identifier through the public encode/decode path (the glue around _build_header / _extract_header), and priorities that
    # change from message to message on one stream through the decoder's reassembly
    return [s.run()] + enccorr.suite_messages(ctx, "header-public-path", fmts=("ebyte", "yd")) + deccorr.suite_histories(ctx)


def _monitor(ids, triples):
    """the property itself, on the real code"""
    from nmea2000.decoder import NMEA2000Decoder
    from nmea2000.encoder import NMEA2000Encoder
    hits = []
    for i in ids:
        pgn, src, dst, prio = NMEA2000Decoder._extract_header(i)
        back = NMEA2000Encoder._build_header(pgn, src, dst, prio)
        if back != i:
            hits.append({"kind": "parse-build", "id": i, "parsed": [pgn, src, dst, prio], "rebuilt": back})
            if len(hits) > 3:
                return hits
    for pgn, src, dst, prio in triples:
        pf = (pgn >> 8) & 0xFF
        canon_pgn = pgn if pf >= 0xF0 else pgn & 0x3FF00
        exp = (canon_pgn, src, dst if pf < 0xF0 else 255, prio)
        got = NMEA2000Decoder._extract_header(NMEA2000Encoder._build_header(pgn, src, dst, prio))
        if tuple(got) != exp:
            hits.append({"kind": "build-parse", "input": [pgn, src, dst, prio], "expected": list(exp), "parsed": list(got)})
            if len(hits) > 3:
                return hits
    return hits


def search(ctx, broken, corr_broken):
    global LAST_SEARCH_CANDIDATES
    harness.load_repo()
    rnd = random.Random(ctx["seed"] + 7)
    ids = [i for i in _ids(ctx) if i < 2 ** 29]
    for d in corr_broken:
        for c in d.get("first", []):
            t = c["request"].split()
            if t[0] == "hdr.parse" and int(t[1]) < 2 ** 29:
                ids.insert(0, int(t[1]))
    triples = []
    pgns = [0, 0xEF00, 0xEF01, 0xF000, 0xF0FF, 0x1F000, 0x1EF00, 0x3FFFF, 59904, 60928, 126208, 126720, 129025, 130816, 0x3EE00, 127250]
    for pgn, src, dst, prio in itertools.product(pgns, (0, 1, 254, 255), (0, 5, 255), (0, 3, 7)):
        triples.append((pgn, src, dst, prio))
    for _ in range(200000):
        triples.append((rnd.getrandbits(18), rnd.getrandbits(8), rnd.getrandbits(8), rnd.getrandbits(3)))
    LAST_SEARCH_CANDIDATES = len(ids) + len(triples)
    hits = _monitor(ids, triples)
    out = [{"key": f"C05/{h['kind']}/{h.get('id', h.get('input'))}", "what": f"{h}", "replay": {"kind": "header", "case": h}} for h in hits[:1]]
    if not out:
        import enccorr
        h2, n2 = enccorr.monitor_trips(ctx, prop="C05", fmts=("ebyte", "usb", "yd"))
        h3, n3 = _monitor_priority(ctx)
        h4, n4 = _monitor_one_encoder(ctx)
        LAST_SEARCH_CANDIDATES += n2 + n3 + n4
        out = (h2 + h3 + h4)[:3]
    return out


def _monitor_one_encoder(ctx):
    """the identifier written by ONE long-lived encoder (the one a gateway client owns for a whole session): the same PGN, source and
    priority to changing destinations, and the same destination from changing sources and priorities — every packet's identifier must
    parse back to the addressing of its own message, whatever the encoder sent before"""
    from nmea2000.decoder import NMEA2000Decoder
    from nmea2000.encoder import NMEA2000Encoder
    from nmea2000.message import NMEA2000Message, NMEA2000Field
    rnd = random.Random(ctx["seed"] + 10)
    enc = NMEA2000Encoder()
    n = 0
    hist = []
    for step in range(400):
        pdu1 = rnd.random() < 0.7
        if pdu1:
            m = NMEA2000Message(PGN=59904, id="isoRequest", fields=[NMEA2000Field(id="pgn", value=60928, raw_value=60928)])
        else:
            m = NMEA2000Decoder().decode_actisense_string("A000057.055 09FF7 1F112 01A05AFF7FFF7FFD")      # 127250, broadcast
        m.source, m.priority = rnd.choice([1, 7, 200]), rnd.choice([2, 6])
        m.destination = rnd.choice([255, 35, 0, 254, 7]) if pdu1 else 255
        fmt = rnd.choice(["ebyte", "usb", "yd"])
        hist.append([m.PGN, m.source, m.priority, m.destination, fmt])
        pk = {"ebyte": enc.encode_ebyte, "usb": enc.encode_usb, "yd": enc.encode_yacht_devices}[fmt](m)[0]
        n += 1
        if fmt == "ebyte":
            i = int.from_bytes(pk[1:5], "big")
        elif fmt == "usb":
            i = int.from_bytes(pk[5:9], "little")
        else:
            i = int(pk.decode().split()[0], 16)
        got = tuple(NMEA2000Decoder._extract_header(i))
        exp = (m.PGN, m.source, m.destination if pdu1 else 255, m.priority)
        if got != exp:
            return [{"key": f"C05/one-encoder-history/{m.PGN}", "what": f"message {len(hist)} through one encoder ({fmt}): sent (PGN, source, destination, priority) = {exp}, the identifier {i:08X} parses to {got}",
                     "replay": {"kind": "one-encoder", "seed": ctx["seed"], "history": hist}}], n
    return [], n


def _monitor_priority(ctx):
    """a fast-packet message is returned with the priority (and addressing) of its own frames, whatever was abandoned on that stream before"""
    from nmea2000.decoder import NMEA2000Decoder
    rnd = random.Random(ctx["seed"] + 9)
    n = 0
    for trial in range(300):
        d = NMEA2000Decoder()
        seq = rnd.randrange(8)
        for k in range(4):
            prio = rnd.randrange(8)
            payload = rnd.randrange(15000, 20000).to_bytes(2, "little") + rnd.randrange(0, 864000000).to_bytes(4, "little") + bytes(8)
            frames = [bytes([seq * 32, len(payload)]) + payload[:6], bytes([seq * 32 + 1]) + payload[6:13], bytes([seq * 32 + 2]) + payload[13:]]
            lose = k < 3 and rnd.random() < 0.5
            i = (prio << 26) | (128275 << 8) | 7
            out = None
            for f in (frames[:-1] if lose else frames):
                n += 1
                out = d.decode_tcp(bytes([0x80 | len(f)]) + i.to_bytes(4, "big") + f + bytes(8 - len(f)))
            if not lose and (out is None or out.priority != prio or out.source != 7):
                return [{"key": "C05/priority-of-reassembled-message", "what": f"a fast-packet message sent with priority {prio} came back with {out and out.priority} after an abandoned message on the same stream",
                         "replay": {"kind": "priority", "seed": ctx["seed"]}}], n
            seq = (seq + 1) % 8
    return [], n


def replay(rp):
    harness.load_repo()
    if rp.get("kind") == "message-trip":
        import enccorr
        return enccorr.replay_trip(rp)
    if rp.get("kind") == "one-encoder":
        h, n = _monitor_one_encoder({"seed": rp.get("seed", 0)})
        return not h, (h[0]["what"] if h else "holds now")
    if rp.get("kind") == "priority":
        h, n = _monitor_priority({"seed": rp.get("seed", 0)})
        return not h, (h[0]["what"] if h else "holds now")
    if rp.get("kind") != "header":
        return False, "not an input replay: " + str(rp.get("broken_theorems") or rp.get("broken_correspondence"))
    c = rp["case"]
    if c["kind"] == "parse-build":
        h = _monitor([c["id"]], [])
    else:
        h = _monitor([], [tuple(c["input"])])
    return (not h), (f"still fails: {h[0]}" if h else "holds now")
