"""C02 — decoding then re-encoding a payload reproduces it on all defined bits.
Theorems: Props/C02.lean (per-kind round trips on the codec models, message-level C02_roundtrip for the 260 well-formed encodable
definitions, C02_db_coverage) + Tables/T00..T15 (kernel: shipped encoders and decoders = compiled database); T1 + T3."""
import common
import harness
import pgncorr

PROP_FILES = ["N2k/Props/C02.lean"] + [f"N2k/Tables/T{k:02d}.lean" for k in range(16)]
LEAN_TARGETS = ["N2k.Props.C02"]
SUITE_NAMES = ["gen-encoders-roundtrip", "gen-encoders-values", "gen-decoders", "gen-decoder-metadata", "encoder-shared-instance"]
ASSUMPTIONS = ["exactness is proved for fields up to 48 bits; wider fields (3 definitions, named by C02_db_coverage) rest on the oracle and correspondence",
               "non-finite floats excepted (as the property states); the database has no FLOAT field in an encodable definition"]
TRUSTED_EXTRA = ["C02: T1 translator (validated end-to-end on all 418 encoders and 442 decoders); hand models Codec/Interp tied by T3"]


def problem_relevant(p):
    return p.startswith("T1") or "decode_int" in p


def correspondence(ctx):
    q = ctx["tier"] == "quick"
    import enccorr
    return pgncorr.suite_encoders(ctx, 6 if q else 60, 2 if q else 8) + pgncorr.suite_decoders(ctx, 2 if q else 20) + enccorr.suite_shared_encoder(ctx)


def search(ctx, broken, corr_broken):
    global LAST_SEARCH_CANDIDATES
    hits, n = pgncorr.roundtrip_search(ctx, 10 if ctx["tier"] == "quick" else 14)
    import enccorr
    more, n2 = enccorr.monitor_shared(ctx, "C02")
    LAST_SEARCH_CANDIDATES = n + n2
    return [{"key": k, "what": what, "replay": {"kind": "roundtrip", "function": sfx, "payload": str(x)}} for k, what, sfx, x in hits] + more


def standing_search(ctx):
    return search(ctx, [], [])


def replay(rp):
    if rp.get("kind") == "encoder-history":
        import enccorr
        return enccorr.replay_shared(rp)
    if rp.get("kind") != "roundtrip":
        return False, "not an input replay: " + str(rp.get("broken_theorems") or rp.get("broken_correspondence"))[:500]
    harness.load_repo()
    from nmea2000 import pgns
    db = pgncorr.Db(common.REPO)
    sfx = rp["function"]
    r = pgncorr.roundtrip_check(sfx, db.defs[sfx], getattr(pgns, "decode_pgn_" + sfx), getattr(pgns, "encode_pgn_" + sfx), int(rp["payload"]))
    return r is None, (r[1] if r else "holds now")
