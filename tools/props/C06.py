"""C06 — every gateway wire format round-trips and obeys its fixed framing.
Theorems: Props/C06.lean over Model/Wire.lean (T3) with header/checksum from T2 (frame level); Props/C06Msg.lean over
Model/Encoder.lean + Model/Decoder.lean + the T1 tables (message level: the wire trip of the encoder's packets is transparent)."""
import random

import common
import harness
import wirecorr

PROP_FILES = ["N2k/Props/C06.lean", "N2k/Props/C06Msg.lean", "N2k/Props/C06Yd.lean"]
LEAN_TARGETS = ["N2k.Props.C06", "N2k.Props.C06Msg", "N2k.Props.C06Yd"]
SUITE_NAMES = ["wire-encoders", "wire-decoders", "encoder-messages", "encoder-shared-instance"]
ASSUMPTIONS = ["frame level: identifiers < 2^32, at most 8 data bytes per frame; message level (C06_message_trip_*): Single/Fast definitions, canonical addressing (PDU1 PGN with low byte 0, broadcast PGN to 255), the decoder's record does not already hold the counter; that the payload decodes back to the field values is C09/C02",
               "Yacht Devices at message level (C06_message_trip_yd): the gateway prepends its `hh:mm:ss.mmm R|T` tokens and the CR LF is stripped; a single-frame payload has 1..8 bytes",
               "text input on the strict grammar; the `A<sec>.<ms>` / `hh:mm:ss.mmm R` tokens the gateways prepend are supplied by the harness"]
TRUSTED_EXTRA = ["C06: Model/Wire.lean hand model of the four encoders and five decoders, tied by differential runs",
                 "C06: Model/Encoder.lean hand model of NMEA2000Encoder._encode and the encode_* wrappers, tied by the encoder-messages suite (every encodable definition through the real encoder)"]


def problem_relevant(p):
    return "_build_header" in p or "_extract_header" in p or "checksum" in p


def correspondence(ctx):
    import enccorr
    return wirecorr.encode_suites(ctx) + wirecorr.decode_suites(ctx) + enccorr.suite_messages(ctx) + enccorr.suite_shared_encoder(ctx)


def standing_search(ctx):
    """the message-level trip on the real code runs on every check (cheap): every encodable definition x four formats"""
    global LAST_SEARCH_CANDIDATES
    import enccorr
    hits, n = enccorr.monitor_trips(ctx)
    h2, n2 = enccorr.monitor_rotation(ctx, "C06")
    h3, n3 = enccorr.monitor_shared(ctx, "C06")
    h4, n4 = enccorr.monitor_receive_paths(ctx, "C06")
    h5, n5 = enccorr.monitor_shared_headers(ctx, "C06")
    hits, n = hits + h2 + h3 + h4 + h5, n + n2 + n3 + n4 + n5
    LAST_SEARCH_CANDIDATES = n
    seen, out = set(), []
    for h in hits:
        if h["key"] not in seen:
            seen.add(h["key"])
            out.append(h)
    return out


def _monitor(ctx, n):
    """the property on the real code: encoder output is accepted by the matching decoder and obeys the framing"""
    harness.load_repo()
    from nmea2000.encoder import NMEA2000Encoder
    from nmea2000.decoder import NMEA2000Decoder
    from nmea2000.message import NMEA2000Message
    rnd = random.Random(ctx["seed"] + 31)
    cap = wirecorr.Cap()
    pgns = [59904, 60928, 126720, 126208, 126464, 127250, 129025, 130816, 0xEF00, 0x1EF00]
    for t in range(n):
        pgn, src, dst, prio = rnd.choice(pgns), rnd.getrandbits(8), rnd.choice([0, 5, 255, rnd.getrandbits(8)]), rnd.randrange(8)
        frames = [wirecorr.rand_data(rnd, 1, 8) for _ in range(rnd.choice([1, 2]))]
        m = NMEA2000Message(PGN=pgn, source=src, destination=dst, priority=prio)
        e = NMEA2000Encoder()
        e._encode = lambda msg, fr=frames: list(fr)
        pf = (pgn >> 8) & 0xFF
        edst = dst if pf < 0xF0 else 255
        epgn = pgn if pf >= 0xF0 else pgn & 0x3FF00
        for f, pk in zip(frames, e.encode_ebyte(m)):
            exp = "ok %d %d %d %d %s" % (epgn, prio, src, edst, harness.hx(f))
            if len(pk) != 13:
                return {"format": "ebyte", "what": f"packet of {len(pk)} bytes", "pgn": pgn, "src": src, "dst": dst, "prio": prio, "frame": f.hex()}
            got = cap.run("decode_tcp", pk)
            if got != exp:
                return {"format": "ebyte", "what": f"decodes to {got}, expected {exp}", "pgn": pgn, "src": src, "dst": dst, "prio": prio, "frame": f.hex()}
        for f, pk in zip(frames, e.encode_usb(m)):
            exp = "ok %d %d %d %d %s" % (epgn, prio, src, edst, harness.hx(f))
            if len(pk) != 20:
                return {"format": "usb", "what": f"packet of {len(pk)} bytes", "pgn": pgn, "src": src, "dst": dst, "prio": prio, "frame": f.hex()}
            got = cap.run("decode_usb", pk)
            if got != exp:
                return {"format": "usb", "what": f"decodes to {got}, expected {exp}", "pgn": pgn, "src": src, "dst": dst, "prio": prio, "frame": f.hex()}
            # every single corrupted byte among positions 2..19 must be rejected
            i = 2 + (t % 18)
            for v in (1, 0x80, 0xFF, rnd.randrange(1, 256)):
                bad = bytearray(pk); bad[i] ^= v
                g = cap.run("decode_usb", bytes(bad))
                if g.startswith("ok"):
                    return {"format": "usb", "what": f"corrupting byte {i} (xor {v}) is accepted: {g}", "pgn": pgn, "src": src, "dst": dst, "prio": prio, "frame": f.hex()}
        for f, pk in zip(frames, e.encode_yacht_devices(m)):
            exp = "ok %d %d %d %d %s" % (epgn, prio, src, edst, harness.hx(f))
            txt = pk.decode()
            if not txt.endswith("\r\n") or "\r" in txt[:-2] or "\n" in txt[:-2]:
                return {"format": "yd", "what": "not one CR/LF terminated line", "pgn": pgn, "src": src, "dst": dst, "prio": prio, "frame": f.hex()}
            got = cap.run("decode_yacht_devices_string", "12:34:56.789 R " + txt.strip())
            if got != exp:
                return {"format": "yd", "what": f"decodes to {got}, expected {exp}", "pgn": pgn, "src": src, "dst": dst, "prio": prio, "frame": f.hex()}
        payload = wirecorr.rand_data(rnd, 1, 30)
        e._call_encode_function = lambda msg, p=payload: p
        got = cap.run("decode_actisense_string", "A000001.000 " + e.encode_actisense(m))
        exp = "ok %d %d %d %d %s" % (pgn, prio, src, dst, harness.hx(payload))
        if got != exp:
            return {"format": "actisense", "what": f"decodes to {got}, expected {exp}", "pgn": pgn, "src": src, "dst": dst, "prio": prio, "frame": payload.hex()}
    return None


def search(ctx, broken, corr_broken):
    global LAST_SEARCH_CANDIDATES
    out = []
    hit = _monitor(ctx, 4000)
    if hit:
        out.append({"key": f"C06/{hit['format']}/{hit['pgn']}-{hit['src']}-{hit['dst']}-{hit['prio']}-{hit['frame']}", "what": f"{hit}",
                    "replay": {"kind": "wire-roundtrip", **hit}})
    more = standing_search(ctx)
    LAST_SEARCH_CANDIDATES = 4000 + (LAST_SEARCH_CANDIDATES or 0)
    return out + more


def replay(rp):
    if rp.get("kind") == "receive-path":
        import enccorr
        return enccorr.replay_receive_path(rp)
    if rp.get("kind") == "rotation":
        import enccorr
        return enccorr.replay_rotation(rp)
    if rp.get("kind") == "shared-headers":
        import enccorr
        return enccorr.replay_shared_headers(rp)
    if rp.get("kind") == "encoder-history":
        import enccorr
        return enccorr.replay_shared(rp)
    if rp.get("kind") == "message-trip":
        import enccorr
        return enccorr.replay_trip(rp)
    if rp.get("kind") != "wire-roundtrip":
        return False, "not an input replay: " + str(rp.get("broken_theorems") or rp.get("broken_correspondence"))[:500]
    hit = _monitor({"seed": rp.get("seed", 0)}, 4000)
    return hit is None, str(hit)
