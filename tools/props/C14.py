"""C14 — close() is final and status notifications are faithful. Theorems: Props/C14.lean over the client LTS (CLOSED absorbing for every event and trace, no attempt and no status after CLOSED, status log faithful and repeat-free, close() returns only with the link shut and no receive task, no callback afterwards); tie: trace validation with close() injected at every step."""
import common
import clientcorr

PROP_FILES = ["N2k/Props/C14.lean"]
LEAN_TARGETS = ["N2k.Props.C14"]
SUITE_NAMES = ["client-traces"]
ASSUMPTIONS = ["PARTIAL w.r.t. the runtime: the theorems are about an LTS at the granularity of externally observable events; real scheduling is represented by traces of real runs (virtual-time asyncio loop, fake transport) that the LTS must accept event by event; OS scheduling, real sockets/serial ports, wall-clock time and blocking inside a task step are outside the model",
               "asyncio primitives (StreamReader, Lock, Queue, Task) and tenacity's retry loop are the real objects in the validated runs and parameters of the model"]
TRUSTED_EXTRA = ["C14: Model/Client.lean (+Reader.lean) hand models tied by trace validation over systematically enumerated session scripts (fault kind x injection step x client kind x callback behaviour)"]
N_QUICK, N_THOROUGH = 3200, 16000


def problem_relevant(p):
    return False


def correspondence(ctx):
    n = N_QUICK if ctx["tier"] == "quick" else N_THOROUGH
    return [clientcorr.suite_traces(ctx, n)]


def search(ctx, broken, corr_broken):
    global LAST_SEARCH_CANDIDATES
    n = 6000 if ctx["tier"] == "quick" else 40000
    LAST_SEARCH_CANDIDATES = n
    hits = clientcorr.run_monitors(ctx, n).get("C14", [])
    pass
    seen, out = set(), []
    for h in hits:
        if h["key"] in seen:
            continue
        seen.add(h["key"])
        out.append({"key": h["key"], "what": h["what"], "replay": {"kind": "client-session", "scenario": h.get("scenario"), "detail": h.get("detail")}})
    return out


def standing_search(ctx):
    """the monitors (the property itself on real runs, no model) run on every check: they cost seconds, and a change that the LTS
    happens to accept would otherwise go unexamined"""
    return search(ctx, [], [])


def replay(rp):
    if rp.get("kind") != "client-session" or not rp.get("scenario"):
        return False, "not an input replay: " + str(rp.get("what") or rp.get("broken_theorems") or rp.get("broken_correspondence"))[:500]
    sim = clientcorr.run_scenario(rp["scenario"])
    bad = [w for p, k, w in clientcorr.monitor(sim, rp["scenario"]) if p == "C14"]
    return (not bad), (bad[0] if bad else "holds now") + " | events: " + " ".join(sim.events)[:600]
