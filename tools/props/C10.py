"""C10 — PGN include/exclude filters are a pure selection of the unfiltered output.
Theorems: Props/C10.lean over Model/Decoder.lean (T3: history correspondence under 28 configurations)."""
import common
import deccorr

PROP_FILES = ["N2k/Props/C10.lean"]
LEAN_TARGETS = ["N2k.Props.C10"]
SUITE_NAMES = ["decoder-histories"]
ASSUMPTIONS = ["the generated layer satisfies GenOk (every definition of a PGN group carries that PGN; 60928 has the single definition isoAddressClaim) — facts of the regenerated tables checked by C01/C08",
               "ids are ASCII (lower-casing is ASCII lower-casing)"]
TRUSTED_EXTRA = ["C10: Model/Decoder.lean is a hand model of NMEA2000Decoder tied by differential runs on random histories"]


def problem_relevant(p):
    return False


def correspondence(ctx):
    return deccorr.suite_histories(ctx)


def search(ctx, broken, corr_broken):
    global LAST_SEARCH_CANDIDATES
    hit, n = deccorr.monitor_filters(ctx, 8, 60)
    LAST_SEARCH_CANDIDATES = n
    if hit:
        return [{"key": f"C10/selection/{common.short_hash(hit)}", "what": hit["what"], "replay": hit}]
    return []


def replay(rp):
    if rp.get("kind") != "filters":
        return False, "not an input replay: " + str(rp.get("broken_theorems") or rp.get("broken_correspondence"))[:500]
    import harness
    harness.load_repo()
    cfg = rp["config"]
    h = deccorr.deser_history(rp["history"])
    base = {k: v for k, v in cfg.items() if k not in ("exclude", "include", "dump", "dumppgns")}
    a, b = deccorr.Real(cfg if not cfg.get("dump") else {k: v for k, v in cfg.items() if k not in ("dump", "dumppgns")}), deccorr.Real(base)
    ok = True
    for inp in h:
        oa, ma = a.feed(inp)
        ob, mb = b.feed(inp)
        exp = deccorr.canon_msg(mb) if (mb is not None and deccorr.permitted(cfg, mb.PGN, mb.id)) else None
        got = deccorr.canon_msg(ma) if ma is not None else None
        ok = ok and exp == got
    a.close(); b.close()
    return ok, "filtered output is the selection of the unfiltered output" if ok else rp["what"]
