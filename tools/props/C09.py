"""C09 — encoding never silently corrupts a value.
Theorems: Props/C09.lean (NUMBER: nearest tick inside the representable range, out-of-range rejected, non-finite rejected, absent <-> absent;
missing field is an error; one-field locality; exactness of the other kinds when the raw fits — `_partial`) + Tables (encoders = compiled database).
Known findings (not repaired): non-NUMBER kinds are masked, not range-checked; reserved NUMBER codes are encodable but not decodable."""
import common
import harness
import pgncorr

PROP_FILES = ["N2k/Props/C09.lean", "N2k/Props/C09Msg.lean"] + [f"N2k/Tables/T{k:02d}.lean" for k in range(16)] + ["N2k/Tables/TLk2.lean"]
LEAN_TARGETS = ["N2k.Props.C09", "N2k.Props.C09Msg", "N2k.Tables.TLk2"]
SUITE_NAMES = ["gen-encoders-roundtrip", "gen-encoders-values", "codec-encode-number", "encoder-shared-instance"]
ASSUMPTIONS = ["the full property is false of this code base for non-NUMBER kinds (masked, not rejected) — recorded as known findings keyed by field kind; the theorems carry the explicit `fits` hypothesis"]
TRUSTED_EXTRA = ["C09: T1 translator; hand models Codec/Interp tied by T3 over the value classes of the quantifier for every encodable definition"]


def problem_relevant(p):
    return p.startswith("T1")


def suite_encode_number(ctx):
    import random
    harness.load_repo()
    from nmea2000.utils import encode_number
    import props.C01 as c01
    db = pgncorr.Db(ctx["repo"])
    rnd = random.Random(ctx["seed"] + 48)
    s = common.Suite("codec-encode-number", "utils.encode_number vs Codec.encodeNumber per distinct (bits, signed, resolution, offset) tuple of the database: values at and around both ends of "
                     "the representable range (end, end +- 1 step, +- half steps), zero, between two steps, far out, negative, absent, NaN/inf, ints and floats")
    seen = set()
    for (n, signed, res, mn, mx, ofs), f in c01._tuples(db).items():
        if (n, signed, res, ofs) in seen:
            continue
        seen.add((n, signed, res, ofs))
        r, o = f["Resolution"], f.get("Offset", 0)
        top = (1 << (n - 1)) - 2 if signed else ((1 << n) - 2 if n > 1 else 1)
        bot = -(1 << (n - 1)) if signed else 0
        vals = [None, float("nan"), float("inf"), 0, 0.0]
        for raw in (top, top + 1, top + 2, bot, bot - 1, bot - 2, top // 2, rnd.randrange(bot, top + 1), top * 977):
            for d in (0, 0.4, 0.5, -0.5, 0.6):
                vals.append((raw + d) * r + o)
        for v in vals:
            try:
                exp = "ok " + str(encode_number(v, n, signed, r, o))
            except Exception as e:
                exp = "err " + pgncorr.enc_err_class(e)
            s.add(f"encnum {pgncorr.canon(v)} {n} {1 if signed else 0} {c01._lit(r)} {c01._lit(o)}", exp, exp.split()[0] + ("" if exp.startswith("ok") else ":" + exp.split()[1]))
    return s.run()


def correspondence(ctx):
    q = ctx["tier"] == "quick"
    import enccorr
    return pgncorr.suite_encoders(ctx, 4 if q else 40, 3 if q else 10) + [suite_encode_number(ctx)] + enccorr.suite_shared_encoder(ctx)


def search(ctx, broken, corr_broken, n_mut=99):
    global LAST_SEARCH_CANDIDATES
    hits, n = pgncorr.c09_search(ctx, n_mut)
    import enccorr
    more, n2 = enccorr.monitor_shared(ctx, "C09")
    LAST_SEARCH_CANDIDATES = n + n2
    return [{"key": k, "what": what, "replay": {"kind": "c09", "function": sfx, "case": list(case)}} for k, what, sfx, case in hits] + more


def standing_search(ctx):
    return search(ctx, [], [], 3 if ctx["tier"] == "quick" else 12)


def replay(rp):
    if rp.get("kind") == "encoder-history":
        import enccorr
        return enccorr.replay_shared(rp)
    return False, "re-run `check.py C09`: " + str(rp.get("what") or rp.get("broken_theorems") or rp.get("broken_correspondence"))[:500]
