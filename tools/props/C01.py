"""C01 — decoded fields match the canboat definition for every PGN and payload.
Theorems: Props/C01.lean (generic over Spec.compileDec / Interp) + Tables/T00..T15, TLk1, TLk3 (kernel: shipped decoders and
dictionaries = compiled database), over tables regenerated from /repo on every run (T1); hand models Codec/Interp tied by T3."""
import random

import common
import harness
import pgncorr

PROP_FILES = ["N2k/Props/C01.lean", "N2k/Props/C01Float.lean"] + [f"N2k/Tables/T{k:02d}.lean" for k in range(16)] + ["N2k/Tables/TLk1.lean", "N2k/Tables/TLk3.lean"]
LEAN_TARGETS = ["N2k.Props.C01", "N2k.Tables.TLk1", "N2k.Tables.TLk3", "N2k.Props.C01Float"]
SUITE_NAMES = ["gen-decoders", "gen-decoder-metadata", "codec-decode-number"]
ASSUMPTIONS = ["supported field = every kind except the dynamic/variable/ISO-name/decimal/field-index kinds, whose ~40 decoders raise and never return a message",
               "text decoding of non-ASCII bytes (errors='ignore') and UTF-16 is not modelled: both sides report an opaque marker for such fields",
               "Spec.compileDec / Spec.decOp are this framework's reading of what the database demands",
               "totality (in range => decodes): proved for integer resolutions with offsets (C01_number_total_int) and for decimal resolutions without offset (C01_number_total_float, every raw value, the binary64 tolerance test analysed exactly over the rationals; overflow to inf is not modelled); the one decimal-resolution field with an Offset (127513 peukertExponent, C01_db_float_offsets) and the non-NUMBER kinds rest on the database-only oracle"]
TRUSTED_EXTRA = ["C01: T1 translator tools/translate_tables.py; validated end-to-end (Interp.runDec on the translated tables vs all 442 real decoders on boundary payloads)"]


def problem_relevant(p):
    return p.startswith("T1") or "decode_int" in p


def _tuples(db):
    seen = {}
    for p in db.db["PGNs"]:
        for f in p["Fields"]:
            if f["FieldType"] in pgncorr.NUMERIC and all(k in f for k in ("BitLength", "Resolution", "RangeMin", "RangeMax")):
                key = (f["BitLength"], bool(f.get("Signed")), repr(f["Resolution"]), repr(f["RangeMin"]), repr(f["RangeMax"]), repr(f.get("Offset", 0)))
                seen.setdefault(key, f)
    return seen


def _lit(v):
    if isinstance(v, int):
        return f"i:{v}"
    m, e, _ = __import__("translate_tables").lit_of_number(v)
    return f"f:{m}:{e}"


def suite_decode_number(ctx):
    harness.load_repo()
    from nmea2000.utils import decode_number
    db = pgncorr.Db(ctx["repo"])
    rnd = random.Random(ctx["seed"] + 44)
    s = common.Suite("codec-decode-number", "utils.decode_number vs Codec.decodeNumber per distinct (bits, signed, resolution, min, max, offset) tuple of the "
                     "database: every raw value for fields of <= 12 bits (<= 16 in the thorough tier), boundary raws (0, 1, top, NA code, sign boundary, range ends +-1) "
                     "and random raws above, at a random bit offset")
    exhaustive_bits = 12 if ctx["tier"] == "quick" else 16
    for (n, signed, res, mn, mx, ofs), f in _tuples(db).items():
        if n <= exhaustive_bits:
            raws = range(1 << n)
        else:
            raws = pgncorr.boundary_raws(f, rnd) + [rnd.getrandbits(n) for _ in range(12)]
        off = rnd.randrange(0, 70)
        for r in raws:
            data = (rnd.getrandbits(off) if off else 0) | (r << off) | (rnd.getrandbits(8) << (off + n))
            try:
                v = decode_number(data, off, n, signed, f["Resolution"], f["RangeMin"], f["RangeMax"], f.get("Offset", 0))
                exp = "ok " + pgncorr.canon(v)
            except Exception as e:
                exp = "err " + pgncorr.dec_err_class(e)
            s.add(f"decnum {data} {off} {n} {1 if signed else 0} {_lit(f['Resolution'])} {_lit(f['RangeMin'])} {_lit(f['RangeMax'])} {_lit(f.get('Offset', 0))}", exp,
                  f"{'exhaustive' if n <= exhaustive_bits else 'boundary'}-{'float' if isinstance(f['Resolution'], float) else 'int'}res")
    return s.run()


def correspondence(ctx):
    q = ctx["tier"] == "quick"
    return pgncorr.suite_decoders(ctx, 4 if q else 40) + [suite_decode_number(ctx)]


def search(ctx, broken, corr_broken):
    global LAST_SEARCH_CANDIDATES
    hits, n = pgncorr.oracle_search(ctx)
    LAST_SEARCH_CANDIDATES = n
    out = [{"key": k, "what": what, "replay": {"kind": "oracle", "function": sfx, "payload": str(x)}} for k, what, sfx, x in hits]
    if not out:
        out, n3 = _repeat_probe(ctx)
        LAST_SEARCH_CANDIDATES = n + n3
    if not out:
        # "a returned message names that definition" / "returns a message instead of failing": the wrong (or no) definition for a payload,
        # also through a live decoder that has seen other payloads of the PGN (matching or not)
        import importlib
        c8 = importlib.import_module("props.C08")
        for v in c8.search(ctx, broken, corr_broken):
            out.append({"key": v["key"].replace("C08/", "C01/", 1), "what": v["what"], "replay": v["replay"]})
        LAST_SEARCH_CANDIDATES = n + (getattr(c8, "LAST_SEARCH_CANDIDATES", 0) or 0)
    return out


def _repeat_probe(ctx):
    """one long-lived decoder per configuration, every payload twice from the same source: what is reported comes from the bits of the payload —
    the second decoding equals the first, equals what a fresh decoder reports, and a message handed out earlier does not change afterwards"""
    import random
    harness.load_repo()
    from nmea2000.decoder import NMEA2000Decoder
    from nmea2000.consts import PhysicalQuantities as PQ
    db = pgncorr.Db(common.REPO)
    rnd = random.Random(ctx["seed"] + 12)
    prefs = {PQ.TEMPERATURE: "C", PQ.SPEED: "kts", PQ.PRESSURE: "bar", PQ.ANGLE: "deg"}
    n = 0

    def view(m):
        return None if m is None else [(f.id, repr(f.value), f.unit_of_measurement) for f in m.fields]
    for cfg_name, kw in (("default", {}), ("preferred units", {"preferred_units": prefs})):
        d = NMEA2000Decoder(**kw)
        for sfx, p in db.defs.items():
            if not all("BitOffset" in f and "BitLength" in f for f in p["Fields"]):
                continue
            for x in pgncorr.payloads_for(p, rnd, True, 1)[:3]:
                nb = max(1, (p.get("Length") or (x.bit_length() + 7) // 8))
                data = (x & ((1 << (8 * nb)) - 1)).to_bytes(nb, "little")[::-1]
                try:
                    ref = view(NMEA2000Decoder(**kw)._decode(p["PGN"], 3, 1, 255, None, data, b"", True))
                except Exception:
                    continue
                if ref is None:
                    continue
                n += 1
                try:
                    m1 = d._decode(p["PGN"], 3, 1, 255, None, data, b"", True)
                    v1 = view(m1)
                    v2 = view(d._decode(p["PGN"], 3, 1, 255, None, data, b"", True))
                    v3 = view(d._decode(p["PGN"], 3, 1, 255, None, data, b"", True))
                    v1_after = view(m1)
                except Exception as e:
                    v1 = v2 = v3 = v1_after = f"raised {type(e).__name__}"
                if not (v1 == v2 == v3 == ref == v1_after):
                    bad = next((k for k, (a, b) in enumerate(zip(ref, v3 if isinstance(v3, list) else ref)) if a != b), None) if isinstance(v3, list) else None
                    return [{"key": f"C01/repeated-payload/{sfx}", "what": f"{sfx} ({cfg_name}): the same payload decoded three times by one decoder gives "
                             f"{(ref[bad], v2[bad], v3[bad]) if bad is not None and isinstance(v2, list) else (v1 == ref, v2 == ref, v3 == ref, v1_after == ref)} "
                             f"(fresh decoder / second / third time; or which of first, second, third, first-afterwards equal the fresh decoder's)",
                             "replay": {"kind": "repeat", "function": sfx, "payload": str(x), "prefs": cfg_name != "default"}}], n
    return [], n


def standing_search(ctx):
    """the database-only oracle is cheap: it also runs when nothing broke, so that known findings stay visible"""
    return search(ctx, [], [])


def replay(rp):
    if rp.get("kind") in ("selection", "selection-live"):
        import importlib
        return importlib.import_module("props.C08").replay(rp)
    if rp.get("kind") == "repeat":
        h, _ = _repeat_probe({"seed": rp.get("seed", 0)})
        return not h, (h[0]["what"] if h else "holds now")
    if rp.get("kind") != "oracle":
        return False, "not an input replay: " + str(rp.get("broken_theorems") or rp.get("broken_correspondence"))[:500]
    harness.load_repo()
    from nmea2000 import pgns
    db = pgncorr.Db(common.REPO)
    sfx = rp["function"]
    r = pgncorr.oracle_check(db, sfx, db.defs[sfx], getattr(pgns, "decode_pgn_" + sfx), int(rp["payload"]))
    return r is None, (r[1] if r else "holds now")
