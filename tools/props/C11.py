"""C11 — messages carry the identity of their source's latest address claim.
Theorems: Props/C11.lean over Model/Decoder.lean (T3)."""
import common
import deccorr

PROP_FILES = ["N2k/Props/C11.lean"]
LEAN_TARGETS = ["N2k.Props.C11"]
SUITE_NAMES = ["decoder-histories"]
ASSUMPTIONS = ["the 10-minute discovery window is a Boolean input per step (the harness sets the decoder's start time accordingly)",
               "the generated layer returns a message of the PGN asked for (regenerated tables, C01)"]
TRUSTED_EXTRA = ["C11: Model/Decoder.lean hand model tied by differential runs on claim/data histories over 3 addresses and 4 manufacturers (one with an unknown code)"]


def problem_relevant(p):
    return False


def correspondence(ctx):
    return deccorr.suite_histories(ctx)


def search(ctx, broken, corr_broken):
    global LAST_SEARCH_CANDIDATES
    hit, n = deccorr.monitor_identity(ctx, 8, 70)
    LAST_SEARCH_CANDIDATES = n
    if hit:
        return [{"key": f"C11/identity/{common.short_hash(hit)}", "what": hit["what"], "replay": hit}]
    return []


def replay(rp):
    if rp.get("kind") != "identity":
        return False, "not an input replay: " + str(rp.get("broken_theorems") or rp.get("broken_correspondence"))[:500]
    outs = deccorr.replay_history(rp)
    return False, f"{rp['what']}; last output now: {outs[-1][:200]}"
