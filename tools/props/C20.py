"""C20 — serial (USB) stream resynchronises after noise with bounded buffering.
Theorems: Props/C20.lean over Model/Serial.lean and Wire.decodeUsb (T3)."""
import asyncio
import random

import common
import harness

PROP_FILES = ["N2k/Props/C20.lean"]
LEAN_TARGETS = ["N2k.Props.C20"]
SUITE_NAMES = ["serial-buffer-trace", "usb-decode-gate"]
ASSUMPTIONS = ["valid packets' bytes after the header do not contain the start marker (as the property states)",
               "read() returns non-empty chunks (an empty read is end of stream: C13)"]
TRUSTED_EXTRA = ["C20: Model/Serial.lean is a hand model of _receive_impl's buffer loop, tied by differential runs under random and adversarial segmentations"]


def problem_relevant(p):
    return "calculate_canbus_checksum" in p


def real_trace(reads):
    """run the real WaveShare client's _receive_impl once per read; returns per read (buffer, windows handed to decode_usb)"""
    import nmea2000.ioclient as io_

    async def main():
        c = io_.WaveShareNmea2000Gateway("p")
        c._buffer = bytearray()
        chunks = list(reads)

        class R:
            async def read(self, n):
                return chunks.pop(0)
        c.reader = R()
        seen = []

        def decode_usb(pkt):
            seen.append(bytes(pkt))
            if len(pkt) > 10 and pkt[10] % 4 == 0:
                raise ValueError("payload rejected by the PGN decoder")     # a well-framed packet the decoder core rejects: consumed like any other
            return None
        c.decoder.decode_usb = decode_usb
        out = []
        for _ in range(len(reads)):
            seen.clear()
            await c._receive_impl()
            out.append((bytes(c._buffer), list(seen)))
        c._process_queue_task.cancel()
        return out
    return asyncio.run(main())


def fmt(trace):
    return ",".join(f"{harness.hx(b)}/{';'.join(harness.hx(p) for p in pk)}" for b, pk in trace)


def valid_packet(rnd, cs=None):
    """a valid packet without a marker inside; `cs`: with this checksum byte (0xaa: its last byte is half a marker)"""
    from nmea2000.utils import calculate_canbus_checksum
    while True:
        body = bytes([0xaa, 0x55, 1, 2, 1]) + bytes(rnd.choice([0xaa, 0x55, rnd.getrandbits(8)]) for _ in range(4)) + bytes([8]) + \
            bytes(rnd.choice([0xaa, 0x55, 0, rnd.getrandbits(8)]) for _ in range(8)) + b"\x00"
        p = body + bytes([calculate_canbus_checksum(body)])
        if b"\xaa\x55" not in p[1:] and (cs is None or p[19] == cs):
            return p


def false_window(s, pk):
    """is there a 20-byte window behind a marker that passes the checksum without being one of the stream's packets?  (the hypothesis of
    C20_resync_none: such a coincidence is a packet as far as any receiver can tell, and what it swallows is lost)"""
    from nmea2000.utils import calculate_canbus_checksum
    starts, pos = set(), 0
    for p in pk:
        i = s.find(p, pos)
        if i >= 0:
            starts.add(i)
            pos = i + len(p)
    i = s.find(b"\xaa\x55")
    while i >= 0:
        w = s[i:i + 20]
        if len(w) == 20 and i not in starts and calculate_canbus_checksum(w) == w[19]:
            return True
        i = s.find(b"\xaa\x55", i + 1)
    return False


def gen_stream(rnd):
    parts = []
    for _ in range(rnd.choice([1, 2, 3, 5])):
        k = rnd.random()
        if k < 0.45:
            parts.append(valid_packet(rnd))
        elif k < 0.6:
            p = bytearray(valid_packet(rnd)); p[rnd.randrange(2, 20)] ^= rnd.randrange(1, 256); parts.append(bytes(p))
        elif k < 0.7:
            p = valid_packet(rnd); parts.append(p[:rnd.randrange(1, 20)])
        elif k < 0.85:
            parts.append(bytes(rnd.choice([0x11, 0x55, 0xaa, rnd.getrandbits(8)]) for _ in range(rnd.choice([1, 2, 5, 19, 20, 21, 47]))))
        else:
            parts.append(bytes(rnd.choice([0x11, 0x55]) for _ in range(rnd.randrange(1, 30))) + b"\xaa")
    return b"".join(parts)


def segment(rnd, s):
    mode = rnd.choice(["one", "all", "rand", "marker"])
    if mode == "one":
        return [s[i:i + 1] for i in range(len(s))]
    if mode == "all" and len(s) <= 100:
        return [s]
    cuts = sorted(set(rnd.randrange(1, len(s)) for _ in range(rnd.randrange(0, 6)))) if len(s) > 1 else []
    if mode == "marker":
        cuts = sorted(set(cuts + [i + 1 for i in range(len(s) - 1) if s[i] == 0xaa and s[i + 1] == 0x55]))
    out, prev = [], 0
    for c in cuts + [len(s)]:
        while c - prev > 100:
            out.append(s[prev:prev + 100]); prev += 100
        if c > prev:
            out.append(s[prev:c])
        prev = c
    return out


def correspondence(ctx):
    harness.load_repo()
    from nmea2000.decoder import NMEA2000Decoder
    rnd = random.Random(ctx["seed"])
    s1 = common.Suite("serial-buffer-trace", "streams of valid / corrupted / truncated packets and noise runs (marker-free, with markers, "
                      "ending in half a marker) under 1-byte, whole, random and marker-splitting segmentations through the real "
                      "_receive_impl vs Serial.feed: buffer and windows handed to decode_usb after every read")
    for _ in range(600 if ctx["tier"] == "quick" else 12000):
        reads = segment(rnd, gen_stream(rnd))
        s1.add("serial.trace " + ",".join(harness.hx(r) for r in reads), fmt(real_trace(reads)), f"{len(reads)}reads" if len(reads) < 4 else "4+reads")
    s2 = common.Suite("usb-decode-gate", "20-byte windows (valid, one corrupted byte at each position incl. header and checksum, wrong length) "
                      "through decode_usb (the frame it extracts, observed at _decode) vs Wire.decodeUsb")
    d = NMEA2000Decoder()
    cap = {}

    def fake_decode(pgn, priority, source_id, destination_id, timestamp, can_data, raw, already_combined=False):
        cap["f"] = (pgn, priority, source_id, destination_id, bytes(can_data)[::-1])
        return "MSG"
    d._decode = fake_decode
    for _ in range(300 if ctx["tier"] == "quick" else 5000):
        p = bytearray(valid_packet(rnd))
        k = rnd.random()
        if k < 0.5:
            i = rnd.randrange(0, 20); p[i] ^= rnd.randrange(1, 256)
        elif k < 0.6:
            p = p[:rnd.randrange(0, 20)]
        elif k < 0.65:
            p = p + b"\x00"
        cap.clear()
        try:
            r = d.decode_usb(bytes(p))
            exp = "none" if r is None else "ok %d %d %d %d %s" % (cap["f"][0], cap["f"][1], cap["f"][2], cap["f"][3], harness.hx(cap["f"][4]))
        except Exception:
            exp = "error"
        s2.add("wire.dec.usb " + harness.hx(p), exp, exp.split()[0])
    return [s1.run(), s2.run()]


def _deliveries(reads):
    """what the real client delivers to the decoder core: windows that pass decode_usb's own gate"""
    import nmea2000.ioclient as io_

    async def main():
        c = io_.WaveShareNmea2000Gateway("p")
        c._buffer = bytearray()
        chunks = list(reads)

        class R:
            async def read(self, n):
                return chunks.pop(0)
        c.reader = R()
        got = []
        mx = 0

        def core(pgn, pr, s, dd, ts, data, raw, ac=False):
            got.append(bytes(raw))
            if raw[10] % 4 == 0:
                # whatever the per-PGN decoders raise: a value out of range, an unsupported PGN type (a bare Exception), a frame too short
                # for its own header (IndexError), a lookup that fails (KeyError)
                raise [ValueError, Exception, IndexError, KeyError, AssertionError][raw[11] % 5]("payload rejected by the PGN decoder")
            return None
        c.decoder._decode = core
        for _ in range(len(reads)):
            try:
                await c._receive_impl()
            except Exception:
                # an exception that escapes from the receive path makes the receive loop give the link up: what is buffered, and every
                # packet that follows, is lost
                break
            mx = max(mx, len(c._buffer))
        c._process_queue_task.cancel()
        return got, mx
    return asyncio.run(main())


def _burst(npk, seed, read_size=4096, stall=0.05):
    """a long burst (more packets than any plausible queue bound) with marker-free noise between the packets goes through the real receive
    path, the real queue and the real consumer task while the receive callback lags (it stalls on the first message): every packet that
    reaches the decoder core as a message must reach the callback.  Returns (sent, handed to the core, delivered to the callback)"""
    import nmea2000.ioclient as io_
    rnd = random.Random(seed)
    pk = [valid_packet(rnd) for _ in range(npk)]
    s = b""
    for p in pk:
        s += bytes(rnd.choice([0x11, 0x00]) for _ in range(rnd.randrange(0, 3))) + p
    chunks = [s[i:i + read_size] for i in range(0, len(s), read_size)]
    nreads = len(chunks)

    async def main():
        c = io_.WaveShareNmea2000Gateway("p")
        c._buffer = bytearray()

        class R:
            async def read(self, n):
                return chunks.pop(0)
        c.reader = R()
        core_n = [0]
        got = []

        class Msg:
            def __init__(self, raw):
                self.raw = raw

        def core(pgn, pr, s_, dd, ts, data, raw, ac=False):
            core_n[0] += 1
            return Msg(bytes(raw))
        c.decoder._decode = core

        async def cb(m):
            if not got:
                await asyncio.sleep(stall)
            got.append(m.raw)
        c.set_receive_callback(cb)
        for _ in range(nreads):
            try:
                await c._receive_impl()
            except Exception:
                break
        for _ in range(6000):
            if len(got) >= core_n[0] or c._process_queue_task.done():
                break
            await asyncio.sleep(0.01)
        c._process_queue_task.cancel()
        return core_n[0], got
    core_n, got = asyncio.run(main())
    return pk, core_n, got


def search(ctx, broken, corr_broken):
    global LAST_SEARCH_CANDIDATES
    harness.load_repo()
    rnd = random.Random(ctx["seed"] + 5)
    n = 0
    for npk in (1500, 5000):
        pk, core_n, got = _burst(npk, ctx["seed"] + npk)
        n += 1
        if got != pk:
            return [{"key": f"C20/burst-loss/{npk}", "what": f"a burst of {npk} valid packets (marker-free noise between them) while the receive callback lags: {core_n} reached the decoder core, "
                     f"{len(got)} reached the callback" + ("" if len(got) != len(pk) else " (in another order or with other bytes)"),
                     "replay": {"kind": "burst", "packets": npk, "seed": ctx["seed"] + npk}}]
    for trial in range(1500):
        n += 1
        pk = [valid_packet(rnd, 0xaa if rnd.random() < 0.3 else None) for _ in range(rnd.choice([1, 2, 3]))]
        kind = rnd.choice(["markerfree", "anynoise", "corrupt", "bound", "cascade"])
        if kind == "markerfree":
            s = b""
            for p in pk:
                noise = bytes(rnd.choice([0x11, 0x55, 0x00]) for _ in range(rnd.randrange(0, 25))) + (b"\xaa" if rnd.random() < 0.4 else b"")
                if rnd.random() < 0.35:
                    # marker-free noise that looks like a packet which lost its first byte(s): 55 01 02 01 ... (behind a packet whose
                    # checksum byte is aa the junction reads like a marker and a frame header)
                    noise = b"\x55\x01\x02\x01" + bytes(rnd.choice([0x11, 0x00, 0x01, 0x02, 0x08, 0x55]) for _ in range(rnd.randrange(0, 16)))
                s += noise + p
            if false_window(s, pk):
                continue
            reads = segment(rnd, s)
            got, mx = _deliveries(reads)
            if got != pk:
                return [_v("noise-free-loss", reads, f"marker-free noise lost a packet: delivered {len(got)} of {len(pk)}", pk)]
        elif kind == "anynoise":
            noise = bytes(rnd.choice([0xaa, 0x55, 0x11]) for _ in range(rnd.randrange(0, 40)))
            reads = segment(rnd, noise + b"".join(pk))
            got, mx = _deliveries(reads)
            if got[-(len(pk) - 1):] != pk[1:] and len(pk) > 1:
                return [_v("resync", reads, f"more than the first packet lost after noise: delivered tail {len(got)}", pk)]
        elif kind == "cascade":
            # a packet that lost bytes on the wire (it still starts with the marker: the packet behind it may be lost), then packets
            # separated by marker-free noise: everything from the second packet on must be delivered
            d = bytearray(valid_packet(rnd))
            for _ in range(rnd.choice([1, 1, 2, 4])):
                del d[rnd.randrange(5, len(d))]
            while len(pk) < 3:
                pk.append(valid_packet(rnd, 0xaa if rnd.random() < 0.5 else None))
            s = bytes(d) + pk[0]
            for p in pk[1:]:
                noise = rnd.choice([b"", b"\x55\x01\x02\x01" + bytes(rnd.choice([0x11, 0x00, 0x01, 0x02, 0x08, 0x55]) for _ in range(rnd.randrange(0, 16))),
                                    bytes(rnd.choice([0x11, 0x55, 0x00]) for _ in range(rnd.randrange(0, 25)))])
                s += noise + p
            if false_window(s, pk):
                continue
            reads = segment(rnd, s)
            got, mx = _deliveries(reads)
            if got[-(len(pk) - 1):] != pk[1:]:
                return [_v("resync", reads, f"a damaged packet cost more than the packet right behind it: delivered {len(got)} of the {len(pk)} intact packets, and not the last {len(pk) - 1}", pk)]
        elif kind == "corrupt":
            p = bytearray(pk[0]); i = rnd.randrange(2, 20); p[i] ^= rnd.randrange(1, 256)
            reads = segment(rnd, bytes(p))
            got, mx = _deliveries(reads)
            if got:
                return [_v("checksum-gate", reads, f"a packet with a corrupted byte {i} was delivered")]
        else:
            s = bytes(rnd.choice([0x11, 0x55, 0xaa, 0xaa]) for _ in range(rnd.randrange(100, 900)))
            s = s.replace(b"\xaa\x55", b"\xaa\x11") if rnd.random() < 0.7 else s
            if rnd.random() < 0.4:
                # one half marker and then a long run without any 0xaa (a stuck line): nothing of it can start a packet
                s = bytes(rnd.choice([0x11, 0x00]) for _ in range(rnd.randrange(0, 30))) + b"\xaa" + bytes(rnd.choice([0x11, 0x00, 0x55, 0x01]) for _ in range(rnd.randrange(100, 900)))
                s = s.replace(b"\xaa\x55", b"\xaa\x11")
            reads = segment(rnd, s)
            got, mx = _deliveries(reads)
            if mx > 60:
                return [_v("buffer-bound", reads, f"{mx} bytes held back")]
    LAST_SEARCH_CANDIDATES = n
    return []


def _v(kind, reads, what, pk=None):
    return {"key": f"C20/{kind}/{common.short_hash([r.hex() for r in reads])}", "what": what,
            "replay": {"kind": "serial", "check": kind, "reads": [r.hex() for r in reads], "packets": [p.hex() for p in (pk or [])]}}


def replay(rp):
    if rp.get("kind") == "burst":
        harness.load_repo()
        pk, core_n, got = _burst(rp["packets"], rp["seed"])
        return got == pk, f"burst of {rp['packets']} packets: {core_n} reached the decoder core, {len(got)} reached the callback"
    harness.load_repo()
    if rp.get("kind") != "serial":
        return False, "not an input replay: " + str(rp.get("broken_theorems") or rp.get("broken_correspondence"))[:500]
    got, mx = _deliveries([bytes.fromhex(r) for r in rp["reads"]])
    pk = [bytes.fromhex(p) for p in rp.get("packets", [])]
    c = rp["check"]
    ok = {"noise-free-loss": got == pk, "resync": len(pk) < 2 or got[-(len(pk) - 1):] == pk[1:],
          "checksum-gate": not got, "buffer-bound": mx <= 60}[c]
    return ok, f"{c}: delivered {[g.hex() for g in got]}, max held {mx}"
