"""C12 — gateway clients deliver every decodable frame once, in order, for any chunking. Theorems: Props/C12.lean (framing is segmentation independent for EByte, text and serial clients; the receive queue is FIFO, each once, callback failures irrelevant); tie: framing and queue correspondence through the real clients + callback log vs a reference decoder."""
import common
import clientcorr

PROP_FILES = ["N2k/Props/C12.lean"]
LEAN_TARGETS = ["N2k.Props.C12"]
SUITE_NAMES = ["client-framing", "client-queue", "client-long-lines", "client-traces"]
ASSUMPTIONS = ["PARTIAL w.r.t. the runtime: the theorems are about an LTS at the granularity of externally observable events; real scheduling is represented by traces of real runs (virtual-time asyncio loop, fake transport) that the LTS must accept event by event; OS scheduling, real sockets/serial ports, wall-clock time and blocking inside a task step are outside the model",
               "asyncio primitives (StreamReader, Lock, Queue, Task) and tenacity's retry loop are the real objects in the validated runs and parameters of the model"]
TRUSTED_EXTRA = ["C12: Model/Client.lean (+Reader.lean) hand models tied by trace validation over systematically enumerated session scripts (fault kind x injection step x client kind x callback behaviour)"]
N_QUICK, N_THOROUGH = 80, 1500


def problem_relevant(p):
    return "checksum" in p


def correspondence(ctx):
    n = N_QUICK if ctx["tier"] == "quick" else N_THOROUGH
    ss, hits = clientcorr.suite_framing(ctx, n)
    global _C12_HITS
    _C12_HITS = hits
    ll, _ = clientcorr.suite_long_lines(ctx, 40 if ctx["tier"] == "quick" else 600)
    return ss + ll + [clientcorr.suite_traces(ctx, n * 2)]


def search(ctx, broken, corr_broken):
    global LAST_SEARCH_CANDIDATES
    n = 6000 if ctx["tier"] == "quick" else 40000
    LAST_SEARCH_CANDIDATES = n
    hits = clientcorr.run_monitors(ctx, n).get("C12", [])
    ss, c12hits = clientcorr.suite_framing(ctx, 400 if ctx["tier"] == "quick" else 4000)
    _, llhits = clientcorr.suite_long_lines(ctx, 40 if ctx["tier"] == "quick" else 600)
    hits = hits + [{"key": "C12/delivery/" + h["kind"] + ("-stall" if h.get("stall") else ""), "what": h["what"], "detail": h} for h in c12hits + llhits]
    seen, out = set(), []
    for h in hits:
        if h["key"] in seen:
            continue
        seen.add(h["key"])
        out.append({"key": h["key"], "what": h["what"], "replay": {"kind": "client-session", "scenario": h.get("scenario"), "detail": h.get("detail")}})
    return out


def standing_search(ctx):
    """the monitors (the property itself on real runs, no model) run on every check: they cost seconds, and a change that the LTS
    happens to accept would otherwise go unexamined"""
    return search(ctx, [], [])


def replay(rp):
    d = rp.get("detail") or {}
    if rp.get("kind") == "client-session" and str(d.get("kind", "")).startswith("long-lines-"):
        import clientsim
        kind = d["kind"].split("-")[-1]
        sim = clientsim.Sim(kind, cb_mode="ok")
        sim.force_limit = d["limit"]
        lines = [bytes.fromhex(x) for x in d["packets"]]
        sim = clientcorr.c12_session(kind, lines, [bytes.fromhex(x) for x in d["reads"]], "ok", eof=bool(d.get("eof")), sim=sim)
        got = list(getattr(sim, "decoder_inputs", []))
        exp = [l.decode("utf-8", errors="replace").strip() for l in lines if len(l) - 1 <= d["limit"]]
        if d.get("eof") and "status DISCONNECTED" not in sim.events:
            return False, f"line limit {d['limit']}: the stream ended and the client did not report DISCONNECTED"
        return got == exp, f"line limit {d['limit']}: the decoder was handed {len(got)} lines, the stream has {len(exp)} lines of at most that length"
    if rp.get("kind") != "client-session" or not rp.get("scenario"):
        return False, "not an input replay: " + str(rp.get("what") or rp.get("broken_theorems") or rp.get("broken_correspondence"))[:500]
    sim = clientcorr.run_scenario(rp["scenario"])
    bad = [w for p, k, w in clientcorr.monitor(sim, rp["scenario"]) if p == "C12"]
    return (not bad), (bad[0] if bad else "holds now") + " | events: " + " ".join(sim.events)[:600]
