"""C15 — JSON round-trips to an equivalent, re-encodable message; dump is faithful.
Theorems: Props/C15.lean over Model/Json.lean (header, fields and their JSON views, plain values exact, what the encoder reads survives the trip,
dump log = filtered outputs in order). Tie: model tree vs json.loads(msg.to_json()) for messages of every definition; dump line counts in the decoder
histories; monitors on the real code (from_json(to_json(m)) re-encodes to the same bytes; dump file = JSON lines of the matching messages).
Known finding: NaN/inf values serialise as null."""
import json
import math
import os
import random
import tempfile

import common
import deccorr
import harness
import pgncorr

PROP_FILES = ["N2k/Props/C15.lean"]
LEAN_TARGETS = ["N2k.Props.C15"]
SUITE_NAMES = ["json-tree", "decoder-histories"]
ASSUMPTIONS = ["orjson (text layer) is a trusted parameter: the model is the JSON data model; the harness parses the real text with the standard json module",
               "timestamp and raw_can_data are outside the property and not compared; non-ASCII text is compared as an opaque marker"]
TRUSTED_EXTRA = ["C15: orjson; consts.py enum member order is translated (T1) for the `[index]` rendering of enums"]


def problem_relevant(p):
    return p.startswith("T1") or "consts.py" in p


def jval(v):
    if v is None:
        return "N"
    if isinstance(v, bool):
        return "i1" if v else "i0"
    if isinstance(v, int):
        return f"i{v}"
    if isinstance(v, float):
        n, d = v.as_integer_ratio()
        return f"f{n}/{d}"
    if isinstance(v, str):
        try:
            return "s" + harness.hx(v.encode("ascii"))
        except UnicodeEncodeError:
            return "S?"
    return "other:" + type(v).__name__


def canon_json(text, opaque=()):
    d = json.loads(text)

    def idx(x):
        return "N" if x is None else str(x[0])
    fs = ";".join(",".join([harness.hx(f["id"].encode()), harness.hx(f["name"].encode()), pgncorr.opt_hex(f["description"]), pgncorr.opt_hex(f["unit_of_measurement"]),
                            "S?" if i in opaque else jval(f["value"]), "S?" if i in opaque else jval(f["raw_value"]), idx(f["physical_quantities"]), idx(f["type"]),
                            "1" if f["part_of_primary_key"] else "0"]) for i, f in enumerate(d["fields"]))
    ttl = "N" if d["ttl"] is None else jval(float(d["ttl"]))
    name = "N" if d["source_iso_name"] is None else str(d["source_iso_name"]["name"])
    hk = "N" if d["hash"] is None else "h" + d["hash"]
    if d["hash"] is not None and any(d["fields"][i]["part_of_primary_key"] for i in opaque if i < len(d["fields"])):
        hk = "*"        # the key contains text the model does not decode (S?): the digest cannot be compared
    return f"json {d['PGN']} {harness.hx(d['id'].encode())} {harness.hx(d['description'].encode())} {ttl} {d['source']} {d['destination']} {d['priority']} name={name} hk={hk} {fs}"


def suite_json(ctx):
    harness.load_repo()
    db = pgncorr.Db(ctx["repo"])
    rnd = random.Random(ctx["seed"] + 71)
    s = deccorr.DecSuite("json-tree", "for every definition that decodes: messages of boundary payloads (numbers incl. 64-bit, floats incl. NaN/inf, lookups, dates, times, ASCII strings, binary, absent values), "
                         "with and without source identity and hash, serialised by the real to_json and parsed with the json module, vs Json.toJson of the model's output (tree compared field by field)")
    k = 0
    for sfx, p in db.defs.items():
        if not all("BitOffset" in f and "BitLength" in f for f in p["Fields"]):
            if not any(f["FieldType"] in ("STRING_LAU", "STRING_LZ") for f in p["Fields"]):
                continue
        k += 1
        cfg = {"map": True} if k % 3 == 0 else {}
        name = f"j{k}"
        real = deccorr.Real(cfg)
        s.add(f"dec.new {name} {deccorr.cfg_spec(cfg)}", "ok", "new")
        if cfg:
            claim = deccorr.Traffic(rnd, db).claim(1, "garmin", 77) + (False, False)
            o, m = real.feed(claim)
            s.add(deccorr.feed_line(name, claim), f"{o} #0", "claim")
        pls = pgncorr.payloads_for(p, rnd, True, 2)
        rnd.shuffle(pls)
        for x in pls[:(8 if ctx["tier"] == "quick" else 60)]:
            nb = max(1, (p.get("Length") or (x.bit_length() + 7) // 8))
            data = (x & ((1 << (8 * nb)) - 1)).to_bytes(nb, "little")
            inp = (p["PGN"], 3, 1, 255, data, True, False)
            o, m = real.feed(inp)
            if m is None:
                exp = o
            else:
                exp = canon_json(m.to_json(), real.opaque(m, data))
            s.add(deccorr.feed_line(name, inp).replace("dec.feed ", "dec.feedjson ", 1), f"{exp} #0", exp.split()[0])
        real.close()
    return s.run()


def correspondence(ctx):
    return [suite_json(ctx)] + deccorr.suite_histories(ctx)


def monitor(ctx, only=None):
    """the property on the real code"""
    harness.load_repo()
    from nmea2000.decoder import NMEA2000Decoder
    from nmea2000.message import NMEA2000Message
    from nmea2000 import pgns
    db = pgncorr.Db(ctx["repo"])
    rnd = random.Random(ctx["seed"] + 72)
    hits = {}
    n = 0
    encs = dict(pgncorr.encoder_functions(pgns))
    for sfx, p in (db.defs.items() if not only else [(only[0], db.defs[only[0]])]):
        d = NMEA2000Decoder()
        for x in ([only[1]] * 2 if only else pgncorr.payloads_for(p, rnd, True, 3)[:40]):
            nb = max(1, (p.get("Length") or (x.bit_length() + 7) // 8))
            data = (x & ((1 << (8 * nb)) - 1)).to_bytes(nb, "little")
            try:
                m = d._decode(p["PGN"], rnd.choice([0, 3, 7]), rnd.choice([0, 9, 255]), rnd.choice([0, 1, 255]), None, data[::-1], b"", True)
            except Exception:
                continue
            if m is None:
                continue
            n += 1
            m.timestamp = None
            # a message that has been used before it is serialised (encoded for forwarding, its fields looked up by id): whatever the
            # object remembers from that must not travel into, or change, its JSON
            used = n % 2 == 0
            if used:
                try:
                    if sfx in encs:
                        encs[sfx](m)
                    elif m.fields:
                        m.get_field_by_id(m.fields[-1].id)
                except Exception:
                    pass
            try:
                txt = m.to_json()
                back = NMEA2000Message.from_json(txt)
                json.loads(txt)
            except Exception as e:
                hits.setdefault(f"C15/json-fails/{sfx}", (f"{sfx}: to_json/from_json raises {type(e).__name__}: {e}", sfx, x))
                continue
            if (back.PGN, back.id, back.source, back.destination, back.priority) != (m.PGN, m.id, m.source, m.destination, m.priority) or len(back.fields) != len(m.fields):
                hits.setdefault("C15/header", (f"{sfx}: PGN/id/addressing changed by the JSON trip: sent to {m.destination} from {m.source} prio {m.priority}, parsed back {back.destination}/{back.source}/{back.priority}", sfx, x))
                continue
            for f0, f1 in zip(m.fields, back.fields):
                def vw(v):
                    if isinstance(v, (bytes, bytearray)):
                        return bytes(v).hex()
                    if hasattr(v, "isoformat"):
                        return v.isoformat()
                    return v
                for a, b, what in ((f0.value, f1.value, "value"), (f0.raw_value, f1.raw_value, "raw value")):
                    if isinstance(a, float) and (math.isnan(a) or math.isinf(a)):
                        if b is not None or True:
                            hits.setdefault("C15/nonfinite-null/FLOAT", (f"{sfx} field {f0.id}: non-finite {what} {a!r} is serialised as null (parsed back as {b!r})", sfx, x))
                        continue
                    if f0.id != f1.id or vw(a) != b:
                        hits.setdefault(f"C15/field/{sfx}.{f0.id}", (f"{sfx} field {f0.id}: {what} {a!r} parsed back as {b!r}", sfx, x))
            if sfx in encs:
                try:
                    b0 = encs[sfx](m)
                except Exception:
                    b0 = None
                try:
                    b1 = encs[sfx](back)
                except Exception:
                    b1 = None
                if b0 != b1:
                    hits.setdefault(f"C15/reencode/{sfx}", (f"{sfx}: the parsed-back message encodes to {b1.hex() if b1 else None}, the original to {b0.hex() if b0 else None}", sfx, x))
    if only:
        return hits, n
    # dump: exactly the matching messages, in order
    for dump_pgns in ([], [127508], ["batteryStatus"], ["vesselHeading", 130312], ["BATTERYSTATUS"], ["airmarAddressableMultiFrame"],
                      ["0x1ef00ManufacturerProprietaryFastPacketAddressed", 128275], ["0x1ff000x1ffffManufacturerSpecificFastPacketNonAddressed"], ["lowranceTemperature", "simnetLgc2000Configuration"]):
        with tempfile.TemporaryDirectory() as td:
            fn = os.path.join(td, "d.jsonl")
            # (with and without unit preferences: the line is the JSON of the message as it is returned)
            from nmea2000.consts import PhysicalQuantities
            prefs = rnd.choice([{}, {PhysicalQuantities.TEMPERATURE: "C", PhysicalQuantities.ANGLE: "deg"}, {PhysicalQuantities.PRESSURE: "PSI", PhysicalQuantities.SPEED: "kts", PhysicalQuantities.TEMPERATURE: "F"}])
            d = NMEA2000Decoder(dump_to_file=fn, dump_pgns=dump_pgns, preferred_units=prefs)
            exp = []
            for inp in deccorr.gen_history(rnd, db, 60):
                n += 1
                pgn, prio, src, dst, data, comb, win = inp
                try:
                    m = d._decode(pgn, prio, src, dst, None, bytes(data)[::-1], b"r", comb)
                except Exception:
                    continue
                if m is not None and (not dump_pgns or m.PGN in [x for x in dump_pgns if isinstance(x, int)] or m.id.lower() in [x.lower() for x in dump_pgns if isinstance(x, str)]):
                    m.timestamp = None
                    exp.append(json.loads(m.to_json()))
            d.close()
            got = []
            for l in open(fn).read().splitlines():
                j = json.loads(l)
                j["timestamp"] = None
                got.append(j)
            if got != exp:
                hits.setdefault(f"C15/dump/{dump_pgns}", (f"dump filter {dump_pgns}, unit preferences {sorted(str(k) for k in prefs)}: the file has {len(got)} lines, {len(exp)} returned messages match the filter (or the content differs)", "dump", 0))
    # dump through the gateway clients: after client.close() the file holds the JSON of every delivered message that matches the filter
    import clientcorr
    import clientsim
    for t, (kind, dump_pgns) in enumerate([(k, f) for k in clientsim.Sim.KINDS for f in ([], [127508], ["batteryStatus"], [130312])]):
        with tempfile.TemporaryDirectory() as td:
            fn = os.path.join(td, "c.jsonl")
            packets = clientcorr.c12_stream(kind, rnd, rnd.choice([2, 5, 70]))
            stream = b"".join(packets)
            reads = clientcorr.c12_segment(rnd, stream, rnd.choice(["all", "rand"]))
            sim = clientsim.Sim(kind, cb_mode="ok", dump_to_file=fn, dump_pgns=dump_pgns)
            sim = clientcorr.c12_session(kind, packets, reads, "ok", sim=sim)
            n += len(packets)
            exp = []
            for m in sim.cb_log:
                if not dump_pgns or m.PGN in [x for x in dump_pgns if isinstance(x, int)] or m.id.lower() in [x.lower() for x in dump_pgns if isinstance(x, str)]:
                    j = json.loads(m.to_json())
                    j["timestamp"] = None
                    exp.append(j)
            got = []
            try:
                for l in open(fn).read().splitlines():
                    j = json.loads(l)
                    j["timestamp"] = None
                    got.append(j)
            except Exception as e:
                got = [f"unreadable dump file: {e}"]
            if got != exp:
                hits.setdefault(f"C15/dump/client-{kind}", (f"{kind} client, dump filter {dump_pgns}: after close() the dump file has {len(got)} complete lines, {len(exp)} delivered messages match the filter "
                                                            f"(or the content differs)", "client-dump", [kind, dump_pgns, [r.hex() for r in reads]]))
    return hits, n


def search(ctx, broken, corr_broken):
    global LAST_SEARCH_CANDIDATES
    hits, n = monitor(ctx)
    LAST_SEARCH_CANDIDATES = n
    return [{"key": k, "what": v[0], "replay": {"kind": "json", "function": v[1], "payload": str(v[2])}} for k, v in hits.items()]


def standing_search(ctx):
    return search(ctx, [], [])


def replay(rp):
    try:
        sfx, x = rp["function"], int(rp["payload"])
        harness.load_repo()
        if sfx not in pgncorr.Db(common.REPO).defs:
            raise KeyError(sfx)
    except Exception:
        return False, "not a single-message replay (re-run the check): " + str(rp.get("what") or rp.get("broken_theorems") or rp.get("broken_correspondence"))[:500]
    hits, _ = monitor({"seed": rp.get("seed", 0), "tier": "quick", "repo": common.REPO}, only=(sfx, x))
    hits = {k: v for k, v in hits.items() if not k.startswith("C15/nonfinite-null")} if "nonfinite" not in str(rp.get("key")) else hits
    return not hits, ("; ".join(v[0] for v in hits.values())[:500] if hits else "holds now")
