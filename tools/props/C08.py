"""C08 — proprietary PGN definitions selected exactly by their match fields.
Theorems: Props/C08.lean (generic: compiled dispatcher = Spec.select) + Tables/TMisc.lean (kernel: the shipped dispatchers
are the compiled ones), both over tables regenerated from /repo (T1)."""
import random

import common
import harness
import pgncorr

PROP_FILES = ["N2k/Props/C08.lean", "N2k/Tables/TMisc.lean"]
LEAN_TARGETS = ["N2k.Props.C08"]
SUITE_NAMES = ["gen-dispatchers", "decoder-histories"]
ASSUMPTIONS = ["Spec.compileDisp / Spec.select are this framework's reading of what the database demands (the Jinja generator cannot be run here)"]
TRUSTED_EXTRA = ["C08: T1 translator tools/translate_tables.py (Python ast -> Lean data); validated end-to-end by running the translated dispatcher tables against the real decode_pgn_<PGN> functions"]


def problem_relevant(p):
    return p.startswith("T1")


def correspondence(ctx):
    import deccorr
    return pgncorr.suite_dispatchers(ctx, 30 if ctx["tier"] == "quick" else 400) + deccorr.suite_histories(ctx)


def _public_path(ctx, pgns, db, rnd):
    """selection through a live decoder: earlier payloads of the PGN (matching or not) must not influence the selection"""
    from nmea2000.decoder import NMEA2000Decoder
    n = 0
    for pgn, g in db.groups.items():
        if not db.is_complex(pgn):
            continue
        d = NMEA2000Decoder()
        hist = []
        for x in pgncorr.match_payloads(db, pgn, rnd, 6):
            n += 1
            hist.append(str(x))
            exp = spec_select(g, x)
            nb = max(1, (x.bit_length() + 7) // 8)
            line = "2024-01-01-00:00:00.000,6,%d,7,255,%d,%s" % (pgn, nb, ",".join("%02x" % b for b in x.to_bytes(nb, "little")))
            try:
                m = d.decode_basic_string(line, True)
                got = m.id if m is not None else None
            except Exception:
                continue          # the selected definition's decoder raised: which one was selected is not observable here
            if got != exp:
                return {"pgn": pgn, "payload": x, "expected": exp, "got": got, "history": hist}, n
    return None, n


def spec_select(group, x):
    """the property's own rule, from the database only"""
    fb = None
    for p in group:
        if p.get("Fallback"):
            fb = p
    for p in group:
        if p.get("Fallback"):
            continue
        ms = [f for f in p["Fields"] if "Match" in f]
        if all(((x >> f["BitOffset"]) & ((1 << f["BitLength"]) - 1)) == f["Match"] for f in ms):
            return p["Id"]
    return fb["Id"] if fb else None


def real_select(pgns, pgn, group, x):
    """which per-definition decoder the real dispatcher calls (observed by wrapping the module-level functions)"""
    saved = {}
    called = []
    for p in group:
        n = f"decode_pgn_{pgn}_{p['Id']}"
        if hasattr(pgns, n):
            saved[n] = getattr(pgns, n)
            setattr(pgns, n, (lambda pid: (lambda data: called.append(pid) or None))(p["Id"]))
    out = None
    try:
        out = getattr(pgns, f"decode_pgn_{pgn}")(x)
    except Exception as e:
        # the dispatcher itself failed (the per-definition decoders are replaced by stubs here): it selected nothing it could call
        out = f"raised {type(e).__name__}"
    finally:
        for n, f in saved.items():
            setattr(pgns, n, f)
    if not called and out is not None:
        # nothing of this PGN was selected, yet something came back: a definition of ANOTHER PGN, or an exception
        return out if isinstance(out, str) else f"other:{getattr(out, 'PGN', '?')}/{getattr(out, 'id', '?')}"
    return called[0] if called else None


def search(ctx, broken, corr_broken):
    global LAST_SEARCH_CANDIDATES
    harness.load_repo()
    from nmea2000 import pgns
    db = pgncorr.Db(ctx["repo"])
    rnd = random.Random(ctx["seed"] + 8)
    n = 0
    for pgn, g in db.groups.items():
        if not db.is_complex(pgn):
            continue
        for x in pgncorr.match_payloads(db, pgn, rnd, 60):
            n += 1
            exp = spec_select(g, x)
            got = real_select(pgns, pgn, g, x)
            if exp != got:
                LAST_SEARCH_CANDIDATES = n
                return [{"key": f"C08/selection/{pgn}/{exp}-vs-{got}", "what": f"PGN {pgn} payload {x}: database rule selects {exp}, the code selects {got}",
                         "replay": {"kind": "selection", "pgn": pgn, "payload": str(x), "expected": exp}}]
    hit, n2 = _public_path(ctx, pgns, db, rnd)
    LAST_SEARCH_CANDIDATES = n + n2
    if not hit:
        # the encode side selects by PGN and id: one long-lived encoder, several definitions of a PGN one after the other
        import enccorr
        h3, n3 = enccorr.monitor_shared(ctx, "C08")
        LAST_SEARCH_CANDIDATES += n3
        if h3:
            return h3[:1]
    if hit:
        return [{"key": f"C08/selection-live-decoder/{hit['pgn']}/{hit['expected']}-vs-{hit['got']}",
                 "what": f"PGN {hit['pgn']} payload {hit['payload']} through a decoder that has seen other payloads of this PGN: database rule selects {hit['expected']}, the decoder returns {hit['got']}",
                 "replay": {"kind": "selection-live", "pgn": hit["pgn"], "payload": str(hit["payload"]), "expected": hit["expected"], "history": hit["history"]}}]
    return []


def replay(rp):
    if rp.get("kind") == "encoder-history":
        import enccorr
        return enccorr.replay_shared(rp)
    if rp.get("kind") == "selection-live":
        # re-run the history of payloads through one live decoder; the last one is the failing input
        harness.load_repo()
        from nmea2000.decoder import NMEA2000Decoder
        d = NMEA2000Decoder()
        got = "nothing fed"
        for xs in rp.get("history") or [rp["payload"]]:
            x = int(xs)
            nb = max(1, (x.bit_length() + 7) // 8)
            line = "2024-01-01-00:00:00.000,6,%d,7,255,%d,%s" % (rp["pgn"], nb, ",".join("%02x" % b for b in x.to_bytes(nb, "little")))
            try:
                m = d.decode_basic_string(line, True)
                got = m.id if m is not None else None
            except Exception as e:
                got = f"raised {type(e).__name__}"
        return got == rp["expected"], f"after {len(rp.get('history') or [])} payloads of PGN {rp['pgn']} through one decoder the last one returns {got}, the database rule selects {rp['expected']}"
    if rp.get("kind") != "selection":
        return False, "not an input replay: " + str(rp.get("broken_theorems") or rp.get("broken_correspondence"))[:500]
    harness.load_repo()
    from nmea2000 import pgns
    db = pgncorr.Db(common.REPO)
    got = real_select(pgns, rp["pgn"], db.groups[rp["pgn"]], int(rp["payload"]))
    return got == rp["expected"], f"code selects {got}, database rule selects {rp['expected']}"
