"""C16 — decoder instances are isolated and unharmed by bad input.
Theorems: Props/C16.lean over Model/Decoder.lean (probe independence, rejected input is a no-op, fast-packet probe = pre-assembled);
isolation itself is VALIDATED: several real decoders/encoders alive at once, each compared with its own model instance (T3)."""
import common
import deccorr
import harness

PROP_FILES = ["N2k/Props/C16.lean"]
LEAN_TARGETS = ["N2k.Props.C16"]
SUITE_NAMES = ["decoder-histories", "decoder-multi-instance"]
ASSUMPTIONS = ["in the functional model instances cannot share state; sharing in the implementation (class attributes, mutated defaults, module caches) is what the multi-instance correspondence looks for"]
TRUSTED_EXTRA = ["C16: isolation proper rests on the multi-instance correspondence (T3), not on a theorem"]


def problem_relevant(p):
    return False


def suite_multi(ctx):
    import random
    import harness
    import pgncorr
    harness.load_repo()
    from nmea2000.decoder import NMEA2000Decoder
    from nmea2000.encoder import NMEA2000Encoder
    db = pgncorr.Db(ctx["repo"])
    rnd = random.Random(ctx["seed"] + 66)
    s = deccorr.DecSuite("decoder-multi-instance", "3 real decoders alive at the same time (default-constructed and configured; extra decoders/encoders created in between), "
                         "their histories interleaved at random; every instance compared step by step with its own model instance")
    for trial in range(6 if ctx["tier"] == "quick" else 60):
        cfgs = [{}, rnd.choice(deccorr.CONFIGS[14:23]), rnd.choice(deccorr.CONFIGS[1:13])]
        reals = [deccorr.Real(c) for c in cfgs]
        hs = [deccorr.gen_history(rnd, db, 30) for _ in cfgs]
        names = [f"m{trial}_{j}" for j in range(3)]
        for j in range(3):
            s.add(f"dec.new {names[j]} {deccorr.cfg_spec(cfgs[j])}", "ok", "new")
        idx = [0, 0, 0]
        while any(idx[j] < len(hs[j]) for j in range(3)):
            j = rnd.choice([j for j in range(3) if idx[j] < len(hs[j])])
            inp = hs[j][idx[j]]
            idx[j] += 1
            o, m = reals[j].feed(inp)
            s.add(deccorr.feed_line(names[j], inp), f"{o} #{len(reals[j].dump_lines())}", "feed-" + o.split()[0])
            if rnd.random() < 0.1:
                NMEA2000Decoder(); NMEA2000Encoder()
        for j in range(3):
            s.add(f"dec.state {names[j]}", reals[j].state(), "state")
            reals[j].close()
    return s.run()


def correspondence(ctx):
    return deccorr.suite_histories(ctx) + [suite_multi(ctx)]


def search(ctx, broken, corr_broken):
    global LAST_SEARCH_CANDIDATES
    hit, n = deccorr.monitor_isolation(ctx, 40, 50)
    if not hit:
        hit, n2 = deccorr.monitor_rejected(ctx, 40, 60)
        n += n2
    if not hit:
        hit, n3 = deccorr.monitor_datapage(ctx)
        n += n3
    if not hit:
        hit, n4 = deccorr.monitor_shared_settings(ctx)
        n += n4
    LAST_SEARCH_CANDIDATES = n
    if hit:
        return [{"key": f"C16/{hit['kind']}/{common.short_hash(hit)}", "what": hit["what"], "replay": hit}]
    return []


def replay(rp):
    if rp.get("kind") == "datapage":
        harness.load_repo()
        why = deccorr.datapage_probe(rp["pgn"], rp["prio"], rp["src"], rp["dst"], bytes.fromhex(rp["data"]), rp["first_twin"])
        return why is None, why or "holds now"
    if rp.get("kind") == "shared-settings":
        hit, n = deccorr.monitor_shared_settings({"repo": common.REPO, "seed": rp.get("seed", 0), "tier": "quick"})
        return hit is None, (hit["what"] if hit else f"{n} steps: decoders built from shared settings objects agree with decoders built from copies")
    if rp.get("kind") not in ("isolation", "probe", "rejected-input"):
        return False, "not an input replay: " + str(rp.get("broken_theorems") or rp.get("broken_correspondence"))[:500]
    outs = deccorr.replay_history(rp)
    return False, f"{rp['what']}; a fresh decoder alone returns for the last input: {outs[-1][:200]}"
